"""
canon: name-independent spelling of expressions inside one function.

Rules that compare source text must not depend on what a local variable happens to be called.  `Canon(fnode)` maps
every local of a function to a token derived from its *binding site*:

    x = <expr>              (only binding of x)      ->  the canonical text of <expr>, in parentheses when compound
    for x in <it>                                    ->  each(<it>)
    for a, b in <it>                                 ->  each(<it>).0 / each(<it>).1
    a, b = <expr>                                    ->  unpack(<expr>).0 / .1
    [.. for x in <it>]                               ->  each(<it>)
    several bindings (accumulators, cursors)         ->  var<k>   (k = rank of the first binding in source order)
    with .. as x / except .. as x                    ->  ctx<k>

Parameters, globals, attributes and callees keep their names: renaming those changes the API or another module.
"""
import ast
import copy
from typing import Dict, List, Optional, Tuple


def _txt(n: ast.AST) -> str:
    return ' '.join(ast.unparse(n).split())


def params_of(fnode) -> List[str]:
    a = fnode.args
    out = [x.arg for x in a.posonlyargs + a.args + a.kwonlyargs]
    if a.vararg:
        out.append(a.vararg.arg)
    if a.kwarg:
        out.append(a.kwarg.arg)
    return out


def own_nodes(fnode):
    """nodes of the function, not descending into nested function/class definitions (lambdas are descended)"""
    stack = list(ast.iter_child_nodes(fnode))
    while stack:
        n = stack.pop()
        yield n
        if isinstance(n, (ast.FunctionDef, ast.AsyncFunctionDef, ast.ClassDef)):
            continue
        stack.extend(ast.iter_child_nodes(n))


class Canon:
    def __init__(self, fnode, self_attrs: bool = False, inliner=None):
        self.fnode = fnode
        self.self_attrs = self_attrs
        self.inliner = inliner  # call node -> replacement expression (see helper_inliner) or None
        self.params = set(params_of(fnode))
        # name -> list of (kind, payload) bindings in source order
        self.bindings: Dict[str, List[Tuple[str, object]]] = {}
        self.order: List[str] = []
        self._collect()
        self._memo: Dict[str, str] = {}
        self._busy: set = set()
        self._cyclic: set = set()

    # ---------------------------------------------------------------------------------------------------
    def _bind(self, name: str, kind: str, payload):
        if name not in self.bindings:
            self.bindings[name] = []
            self.order.append(name)
        self.bindings[name].append((kind, payload))

    def _bind_target(self, t, kind, src, path=()):
        if isinstance(t, ast.Name):
            self._bind(t.id, kind, (src, path))
        elif isinstance(t, (ast.Tuple, ast.List)):
            for i, e in enumerate(t.elts):
                self._bind_target(e, kind, src, path + (i,))
        elif isinstance(t, ast.Starred):
            self._bind_target(t.value, kind, src, path + ('*',))

    def _collect(self):
        nodes: List[ast.AST] = []

        def dfs(n):
            for ch in ast.iter_child_nodes(n):
                nodes.append(ch)
                if isinstance(ch, (ast.FunctionDef, ast.AsyncFunctionDef, ast.ClassDef)):
                    continue
                dfs(ch)
        dfs(self.fnode)
        for n in nodes:
            if isinstance(n, ast.Assign):
                for t in n.targets:
                    if isinstance(t, (ast.Tuple, ast.List)) and isinstance(n.value, (ast.Tuple, ast.List)) and \
                            len(t.elts) == len(n.value.elts) and all(isinstance(e_, ast.Name) for e_ in t.elts):
                        for e_, v_ in zip(t.elts, n.value.elts):   # a, b = x, y  binds a to x and b to y
                            self._bind(e_.id, 'assign', v_)
                        continue
                    if isinstance(t, ast.Name):
                        self._bind(t.id, 'assign', n.value)
                    elif self.self_attrs and isinstance(t, ast.Attribute) and isinstance(t.value, ast.Name) and \
                            t.value.id == 'self':
                        self._bind('self.' + t.attr, 'assign', n.value)
                    else:
                        self._bind_target(t, 'unpack', n.value)
            elif isinstance(n, ast.AnnAssign) and isinstance(n.target, ast.Name) and n.value is not None:
                self._bind(n.target.id, 'assign', n.value)
            elif isinstance(n, ast.AugAssign) and isinstance(n.target, ast.Name):
                self._bind(n.target.id, 'aug', n.value)
            elif isinstance(n, (ast.For, ast.AsyncFor)):
                self._bind_target(n.target, 'each', n.iter)
            elif isinstance(n, ast.comprehension):
                self._bind_target(n.target, 'each', n.iter)
            elif isinstance(n, ast.NamedExpr) and isinstance(n.target, ast.Name):
                self._bind(n.target.id, 'assign', n.value)
            elif isinstance(n, ast.withitem) and n.optional_vars is not None:
                self._bind_target(n.optional_vars, 'ctx', n.context_expr)
            elif isinstance(n, ast.ExceptHandler) and n.name:
                self._bind(n.name, 'ctx', None)
            elif isinstance(n, (ast.Global, ast.Nonlocal)):
                for g in n.names:
                    self.params.add(g)

    # ---------------------------------------------------------------------------------------------------
    def is_local(self, name: str) -> bool:
        return name in self.bindings and name not in self.params

    def single_value(self, name: str) -> Optional[ast.AST]:
        """the expression a local is bound to when it has exactly one plain assignment"""
        b = self.bindings.get(name)
        if b and len(b) == 1 and b[0][0] == 'assign' and name not in self.params:
            return b[0][1]
        # bound in several places to the very same expression (the arms of a dispatch written out)
        if b and len(b) > 1 and all(k == 'assign' for k, _ in b) and name not in self.params:
            texts = {ast.dump(v) for _, v in b}
            if len(texts) == 1 and not any(isinstance(x, ast.Name) and x.id == name for x in ast.walk(b[0][1])):
                return b[0][1]
        return None

    def _one(self, name, kind, payload) -> Optional[str]:
        if kind == 'assign':
            if isinstance(payload, ast.IfExp):
                # x = a if c else b   names the same alternatives as   if c: x = a / else: x = b
                arms = sorted({self._one(name, 'assign', payload.body), self._one(name, 'assign', payload.orelse)})
                return arms[0] if len(arms) == 1 else 'phi(' + ' | '.join(arms) + ')'
            inner = self.text(payload)
            simple = isinstance(payload, (ast.Name, ast.Constant, ast.Attribute, ast.Call, ast.Subscript))
            return inner if simple else f'({inner})'
        if kind in ('each', 'unpack'):
            src, path = payload
            return f'{kind}({self.text(src)})' + ''.join(f'.{p}' for p in path)
        return None

    def token(self, name: str) -> str:
        if name in self._memo:
            return self._memo[name]
        if not self.is_local(name):
            return name
        fallback = f'var{self.order.index(name)}'
        if name in self._busy:
            self._cyclic.add(name)
            return fallback
        self._busy.add(name)
        try:
            toks = []
            for kind, payload in self.bindings[name]:
                t = self._one(name, kind, payload)
                if t is None:
                    toks = None
                    break
                toks.append(t)
            if name in self._cyclic or not toks:
                tok = ('ctx' if toks is None and all(k == 'ctx' for k, _ in self.bindings[name]) else 'var') + \
                    str(self.order.index(name))
            else:
                flat = []
                for t_ in toks:
                    if t_.startswith('phi(') and t_.endswith(')') and t_.count('phi(') == 1:
                        flat += t_[4:-1].split(' | ')
                    else:
                        flat.append(t_)
                distinct = sorted(set(flat))
                if len(distinct) == 1:
                    tok = distinct[0]
                elif len(distinct) <= 3 and all(k == 'assign' for k, _ in self.bindings[name]):
                    tok = 'phi(' + ' | '.join(distinct) + ')'
                else:
                    tok = fallback
        finally:
            self._busy.discard(name)
        self._memo[name] = tok
        return tok

    def text(self, node: ast.AST) -> str:
        """canonical text of an expression or statement of this function"""
        canon = self

        class R(ast.NodeTransformer):
            def visit_Name(self, n):
                if canon.is_local(n.id):
                    if isinstance(n.ctx, ast.Store):
                        return ast.copy_location(ast.Name(id=f'${canon.order.index(n.id)}', ctx=n.ctx), n)
                    return ast.copy_location(ast.Name(id='⟦' + canon.token(n.id) + '⟧', ctx=n.ctx), n)
                return n

            def visit_Attribute(self, n):
                if canon.self_attrs and isinstance(n.value, ast.Name) and n.value.id == 'self' and \
                        isinstance(n.ctx, ast.Load) and ('self.' + n.attr) in canon.bindings:
                    return ast.copy_location(ast.Name(id=canon.token('self.' + n.attr), ctx=n.ctx), n)
                return self.generic_visit(n)

            def visit_Lambda(self, n):
                # lambda parameters: positional names
                mp = {a.arg: f'arg{i}' for i, a in enumerate(n.args.args)}
                n2 = copy.deepcopy(n)
                for a in n2.args.args:
                    a.arg = mp[a.arg]
                for x in ast.walk(n2.body):
                    if isinstance(x, ast.Name) and x.id in mp:
                        x.id = mp[x.id]
                n2.body = self.visit(n2.body)
                return n2

        new = R().visit(copy.deepcopy(node))
        s = _txt(new)
        return s.replace('⟦', '').replace('⟧', '')

    def resolve(self, node: ast.AST, depth: int = 8) -> ast.AST:
        """expression with single-assignment locals replaced by their defining expression (AST, for structural
        inspection)"""
        canon = self

        class R(ast.NodeTransformer):
            def visit_Name(self, n):
                if isinstance(n.ctx, ast.Load) and depth > 0:
                    v = canon.single_value(n.id)
                    if v is not None:
                        return canon.resolve(v, depth - 1)
                    b = canon.bindings.get(n.id)
                    if b and len(b) == 1 and b[0][0] == 'unpack' and n.id not in canon.params and \
                            len(b[0][1][1]) == 1 and isinstance(b[0][1][1][0], int):
                        # a, b = <expr>   ->  a is <expr>[0]
                        src, path = b[0][1]
                        val = canon.resolve(src, depth - 1)
                        if isinstance(val, (ast.Tuple, ast.List)) and 0 <= path[0] < len(val.elts):
                            return val.elts[path[0]]
                        return ast.Subscript(value=val, slice=ast.Constant(value=path[0]), ctx=ast.Load())
                return n

            def visit_Subscript(self, n):
                n = self.generic_visit(n)
                # (a, b)[0]  is  a   (a helper that returns a tuple, unpacked by its caller)
                if isinstance(n.value, (ast.Tuple, ast.List)) and isinstance(n.slice, ast.Constant) and \
                        isinstance(n.slice.value, int) and 0 <= n.slice.value < len(n.value.elts):
                    return n.value.elts[n.slice.value]
                return n

            def visit_Call(self, n):
                n = self.generic_visit(n)
                if canon.inliner is not None and isinstance(n.func, ast.Name) and depth > 0:
                    r = canon.inliner(n)
                    if r is not None:
                        return canon.resolve(r, depth - 1)  # the helper's own calls of simple helpers, too
                return n

        return ast.fix_missing_locations(R().visit(copy.deepcopy(node)))

    def aliases(self) -> Dict[str, ast.AST]:
        """single-assignment locals and the expression they stand for (for guards.GuardEval)"""
        out = {}
        for name in self.order:
            v = self.single_value(name)
            if v is not None:
                out[name] = v
        return out

    def names_of(self, node: ast.AST) -> set:
        """free names of the resolved expression"""
        return {x.id for x in ast.walk(self.resolve(node)) if isinstance(x, ast.Name)}


# -------------------------------------------------------------------------------------------------------------
# role discovery: rules name the locals they talk about by the *role* the local plays, not by its spelling
class _RenameLocals(ast.NodeTransformer):
    def __init__(self, mapping):
        self.mapping = mapping

    def visit_Name(self, n):
        if n.id in self.mapping:
            return ast.copy_location(ast.Name(id=self.mapping[n.id], ctx=n.ctx), n)
        return n

    def visit_ExceptHandler(self, n):
        if n.name in self.mapping:
            n.name = self.mapping[n.name]
        return self.generic_visit(n)

    def visit_Lambda(self, n):
        shadow = {a.arg for a in n.args.args + n.args.kwonlyargs}
        saved = self.mapping
        self.mapping = {k: v for k, v in saved.items() if k not in shadow}
        try:
            return self.generic_visit(n)
        finally:
            self.mapping = saved


def _match(pred, text: str) -> bool:
    if callable(pred):
        return bool(pred(text))
    return text == pred


def bound(pred):
    """the local that has a plain assignment whose canonical value text satisfies pred"""
    def find(c: Canon):
        for name in c.order:
            if not c.is_local(name):
                continue
            for kind, payload in c.bindings[name]:
                if kind == 'assign' and _match(pred, c.text(payload)):
                    return name
        return None
    return find


def each(pred, path=()):
    """the loop / comprehension variable(s) that iterate over an expression whose canonical text satisfies pred"""
    def find(c: Canon):
        out = []
        for name in c.order:
            if not c.is_local(name):
                continue
            for kind, payload in c.bindings[name]:
                if kind == 'each' and tuple(payload[1]) == tuple(path) and _match(pred, c.text(payload[0])):
                    if name not in out:
                        out.append(name)
        return out or None
    return find


def unpacked(pred, path):
    def find(c: Canon):
        for name in c.order:
            if not c.is_local(name):
                continue
            for kind, payload in c.bindings[name]:
                if kind == 'unpack' and tuple(payload[1]) == tuple(path) and _match(pred, c.text(payload[0])):
                    return name
        return None
    return find


def returned():
    """the local the function returns by name"""
    def find(c: Canon):
        for n in ast.walk(c.fnode):
            if isinstance(n, ast.Return) and isinstance(n.value, ast.Name) and c.is_local(n.value.id):
                return n.value.id
        return None
    return find


def custom(fn):
    """fn(canon, fnode) -> local name or None"""
    def find(c: Canon):
        return fn(c, c.fnode)
    return find


def localise(f, roles: Dict[str, object], strict: bool = True):
    """copy of FuncInfo f whose locals playing the given roles carry the names the rule uses.  roles maps the name the
    rule uses to a finder (bound / each / unpacked / custom).  A role nobody plays is an analysis error when strict:
    the anchor of the rule is gone, which is not the same as the rule being violated."""
    from .loader import AnalysisError
    c = Canon(f.node)
    mapping: Dict[str, str] = {}
    for want, finder in roles.items():
        actual = finder(c)
        if actual is None:
            if strict:
                raise AnalysisError(f'{f.module.name}:{f.qualname}: no local plays the role `{want}` any more')
            continue
        for a in ([actual] if isinstance(actual, str) else actual):
            if a != want:
                mapping[a] = want
    if not mapping:
        return f
    # a different local that already carries a wanted name steps aside
    taken = {v for v in mapping.values()}
    for name in c.order:
        if c.is_local(name) and name in taken and name not in mapping:
            mapping[name] = name + '_other'
    new = copy.copy(f)
    new.node = _RenameLocals(mapping).visit(copy.deepcopy(f.node))
    return new



def helper_inliner(program, module_name: str, nested_in=None, exclude=()):
    """-> function(call) that replaces a call of a *simple* helper defined next to the caller (module level, or nested in
    `nested_in`) by the helper's return expression with the arguments substituted.  Simple: positional/keyword
    parameters only, a body of plain single assignments followed by one `return <expr>` (no branches, loops, yields)."""
    def find(name):
        if nested_in is not None:
            for n in ast.walk(nested_in):
                if isinstance(n, ast.FunctionDef) and n.name == name and n is not nested_in:
                    return n
        f = program.find_func(f'{module_name}:{name}')
        return f.node if f is not None else None

    def inline(call):
        if not isinstance(call.func, ast.Name) or call.func.id in exclude:
            return None
        fn = find(call.func.id)
        if fn is None or fn.args.vararg or fn.args.kwarg or fn.decorator_list:
            return None
        body = [st for st in fn.body if not (isinstance(st, ast.Expr) and isinstance(st.value, ast.Constant))]
        if not body or not isinstance(body[-1], ast.Return) or body[-1].value is None:
            return None
        if not all(isinstance(st, ast.Assign) and len(st.targets) == 1 and isinstance(st.targets[0], ast.Name)
                   for st in body[:-1]):
            return None
        params = [a.arg for a in fn.args.args]
        bind = {}
        for i, a in enumerate(call.args):
            if isinstance(a, ast.Starred) or i >= len(params):
                return None
            bind[params[i]] = a
        for kw in call.keywords:
            if kw.arg is None or kw.arg not in params:
                return None
            bind[kw.arg] = kw.value
        defaults = dict(zip(params[len(params) - len(fn.args.defaults):], fn.args.defaults))
        for p_ in params:
            if p_ not in bind:
                if p_ not in defaults:
                    return None
                bind[p_] = defaults[p_]
        inner = Canon(fn)
        expr = inner.resolve(body[-1].value)

        class S(ast.NodeTransformer):
            def visit_Name(self, n):
                if isinstance(n.ctx, ast.Load) and n.id in bind:
                    return copy.deepcopy(bind[n.id])
                return n
        return S().visit(copy.deepcopy(expr))
    return inline
