"""
rename_test: systematic false-alarm test.  For every function a property's rules anchor on, build a scratch copy in
which all local variables of that function are renamed (behaviour-preserving), re-run the property's rules and require
the findings to be unchanged.

    /venv/bin/python -m sa.rename_test [Cnn ...]

Functions whose locals are deliberately part of a rule's vocabulary can be listed in KEEP (with the reason).
"""
import ast
import os
import shutil
import sys
import tempfile
import warnings
from concurrent.futures import ProcessPoolExecutor
from typing import Dict, List, Set, Tuple

from .loader import Program, repo_root, FuncInfo


class _Rename(ast.NodeTransformer):
    def __init__(self, mapping):
        self.mapping = mapping

    def visit_Name(self, node):
        if node.id in self.mapping:
            return ast.copy_location(ast.Name(id=self.mapping[node.id], ctx=node.ctx), node)
        return node

    def visit_FunctionDef(self, node):
        return self.generic_visit(node)

    def visit_Lambda(self, node):
        # lambda parameters are locals of the lambda: renamed as well
        saved = self.mapping
        self.mapping = dict(saved)
        for a in node.args.args + node.args.kwonlyargs:
            self.mapping[a.arg] = a.arg + '_rn'
            a.arg = a.arg + '_rn'
        try:
            node.body = self.visit(node.body)
            return node
        finally:
            self.mapping = saved

    def visit_ExceptHandler(self, node):
        if node.name in self.mapping:
            node.name = self.mapping[node.name]
        return self.generic_visit(node)


def local_names(fnode) -> Set[str]:
    params = {a.arg for a in fnode.args.posonlyargs + fnode.args.args + fnode.args.kwonlyargs}
    if fnode.args.vararg:
        params.add(fnode.args.vararg.arg)
    if fnode.args.kwarg:
        params.add(fnode.args.kwarg.arg)
    stored = set()
    globals_ = set()
    for n in ast.walk(fnode):
        if isinstance(n, ast.Name) and isinstance(n.ctx, ast.Store):
            stored.add(n.id)
        elif isinstance(n, ast.ExceptHandler) and n.name:
            stored.add(n.name)
        elif isinstance(n, (ast.Global, ast.Nonlocal)):
            globals_ |= set(n.names)
        elif isinstance(n, (ast.FunctionDef, ast.AsyncFunctionDef)) and n is not fnode:
            stored.discard(n.name)
    # names reassigned that are parameters keep their name (keyword API)
    return {s for s in stored if s not in params and s not in globals_ and not s.startswith('__')}


def renamed_source(src: str, fnode) -> str:
    names = local_names(fnode)
    if not names:
        return None
    mapping = {n: f'{n}_rn' for n in names}
    import copy
    new = _Rename(mapping).visit(copy.deepcopy(fnode))
    ast.fix_missing_locations(new)
    text = ast.unparse(new)
    lines = src.splitlines(keepends=True)
    start = (fnode.decorator_list[0].lineno if fnode.decorator_list else fnode.lineno) - 1
    end = fnode.end_lineno
    indent = ' ' * fnode.col_offset
    body = ''.join(indent + l + '\n' for l in text.splitlines())
    return ''.join(lines[:start]) + body + ''.join(lines[end:])


def rename_everything(root: str) -> str:
    """scratch copy of the package in which the locals of every function and method are renamed"""
    tmp = tempfile.mkdtemp(prefix='sa_rename_all_')
    dst = os.path.join(tmp, 'src', 'peptacular')
    shutil.copytree(os.path.join(root, 'src', 'peptacular'), dst,
                    ignore=shutil.ignore_patterns('__pycache__', '*.pyc', 'resid.xml'))
    n_funcs = 0
    for dirpath, _dirs, files in os.walk(dst):
        for fn in files:
            if not fn.endswith('.py'):
                continue
            path = os.path.join(dirpath, fn)
            src = open(path, encoding='utf-8').read()
            tree = ast.parse(src)
            funcs = []
            for node in tree.body:
                if isinstance(node, (ast.FunctionDef, ast.AsyncFunctionDef)):
                    funcs.append(node)
                elif isinstance(node, ast.ClassDef):
                    funcs.extend(x for x in node.body if isinstance(x, (ast.FunctionDef, ast.AsyncFunctionDef)))
            for f in sorted(funcs, key=lambda f: -f.lineno):
                new = renamed_source(src, f)
                if new is None:
                    continue
                try:
                    ast.parse(new)
                except SyntaxError:
                    continue
                src = new
                n_funcs += 1
            with open(path, 'w', encoding='utf-8') as fh:
                fh.write(src)
    return tmp, n_funcs


def _whole(args):
    prop, root = args
    warnings.simplefilter('ignore')
    from .check import analyse
    from .selftest import _finding_keys
    rep = analyse(prop, root)
    return prop, _finding_keys(rep), list(rep.errors)


def run_whole(props: List[str], root: str = None, jobs: int = 16) -> int:
    """one variant: every local of every function renamed at once; findings of every property must be unchanged"""
    warnings.simplefilter('ignore')
    root = root or repo_root()
    tmp, n_funcs = rename_everything(root)
    bad = 0
    try:
        with ProcessPoolExecutor(max_workers=jobs) as ex:
            base = {p: (k, e) for p, k, e in ex.map(_whole, [(p, root) for p in props])}
            for p, keys, errs in ex.map(_whole, [(p, tmp) for p in props]):
                new = {k: v for k, v in keys.items() if k not in base[p][0]}
                gone = [k for k in base[p][0] if k not in keys]
                new_err = [e for e in errs if e not in base[p][1]]
                if new or gone or new_err:
                    bad += 1
                    print(f'FALSE-ALARM {p} after renaming the locals of all {n_funcs} functions:')
                    for v in list(new.values())[:12]:
                        print('    new:', v[:230])
                    for e in new_err[:5]:
                        print('    error:', e[:230])
                    for g in gone[:5]:
                        print('    gone:', g)
                else:
                    print(f'{p}: silent after renaming the locals of all {n_funcs} functions')
    finally:
        shutil.rmtree(tmp, ignore_errors=True)
    return bad


def anchors_of(prop: str, root: str) -> List[str]:
    """functions the property's rules look up by name during a run"""
    import importlib
    from .check import Context
    from .report import Report
    seen: List[str] = []
    orig = Program.func

    def spy(self, fq):
        f = orig(self, fq)
        if f.fq not in seen:
            seen.append(f.fq)
        return f
    Program.func = spy
    try:
        rep = Report(prop, 'quick', 0, dry=True)
        ctx = Context(root)
        mod = importlib.import_module(f'sa.props.{prop}')
        try:
            mod.check(ctx, rep)
        except Exception:
            pass
    finally:
        Program.func = orig
    return seen


def _one(args):
    prop, fq, root = args
    warnings.simplefilter('ignore')
    from .check import analyse, Context
    from .selftest import _finding_keys
    p = Program(root)
    f = p.find_func(fq)
    if f is None:
        return (prop, fq, 'skip', 'function not found')
    src = f.module.src
    try:
        new_src = renamed_source(src, f.node)
    except Exception as e:
        return (prop, fq, 'skip', f'rename failed: {e}')
    if new_src is None:
        return (prop, fq, 'skip', 'no locals')
    try:
        ast.parse(new_src)
    except SyntaxError as e:
        return (prop, fq, 'skip', f'renamed source does not parse: {e}')
    tmp = tempfile.mkdtemp(prefix='sa_rename_')
    try:
        dst = os.path.join(tmp, 'src', 'peptacular')
        shutil.copytree(os.path.join(root, 'src', 'peptacular'), dst,
                        ignore=shutil.ignore_patterns('__pycache__', '*.pyc', 'resid.xml'))
        with open(os.path.join(tmp, f.module.relpath), 'w', encoding='utf-8') as fh:
            fh.write(new_src)
        rep = analyse(prop, tmp)
        return (prop, fq, 'done', (_finding_keys(rep), list(rep.errors)))
    finally:
        shutil.rmtree(tmp, ignore_errors=True)


def run(props: List[str], root: str = None, jobs: int = 16) -> int:
    warnings.simplefilter('ignore')
    root = root or repo_root()
    from .check import analyse
    from .selftest import _finding_keys
    bad = 0
    for prop in props:
        base_rep = analyse(prop, root)
        base = _finding_keys(base_rep)
        base_err = list(base_rep.errors)
        anchors = anchors_of(prop, root)
        tasks = [(prop, fq, root) for fq in anchors]
        n_ok = n_skip = 0
        with ProcessPoolExecutor(max_workers=jobs) as ex:
            for (p_, fq, status, payload) in ex.map(_one, tasks):
                if status == 'skip':
                    n_skip += 1
                    continue
                findings, errors = payload
                new = {k: v for k, v in findings.items() if k not in base}
                gone = [k for k in base if k not in findings]
                new_err = [e for e in errors if e not in base_err]
                if new or gone or new_err:
                    bad += 1
                    print(f'FALSE-ALARM {prop} after renaming the locals of {fq}:')
                    for v in list(new.values())[:3]:
                        print('    new:', v[:220])
                    for e in new_err[:3]:
                        print('    error:', e[:220])
                    for g in gone[:2]:
                        print('    gone:', g)
                else:
                    n_ok += 1
        print(f'{prop}: {len(anchors)} anchor functions, {n_ok} silent after renaming, {n_skip} skipped')
    return bad


if __name__ == '__main__':
    args = [a for a in sys.argv[1:] if not a.startswith('--')]
    props = args or [f'C{i:02d}' for i in range(1, 21) if i != 6]
    if '--per-function' in sys.argv:
        sys.exit(1 if run(props) else 0)
    sys.exit(1 if run_whole(props) else 0)
