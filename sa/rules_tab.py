"""
R-TAB: evaluation of the constant tables and identities between them / against an outside reference.
All composition identities are exact integer-vector equalities.
"""
import ast
import os
import re
from typing import Dict, List, Tuple, Any, Optional

from .loader import Program, AnalysisError, norm_stmt
from .consteval import ConstEval

Comp = Dict[str, int]

# ---------------------------------------------------------------------------------------------------------
# outside reference (not taken from the repository)
# residue compositions (amino acid minus water), standard biochemistry
REF_RESIDUES: Dict[str, Comp] = {
    'G': {'C': 2, 'H': 3, 'N': 1, 'O': 1}, 'A': {'C': 3, 'H': 5, 'N': 1, 'O': 1},
    'S': {'C': 3, 'H': 5, 'N': 1, 'O': 2}, 'P': {'C': 5, 'H': 7, 'N': 1, 'O': 1},
    'V': {'C': 5, 'H': 9, 'N': 1, 'O': 1}, 'T': {'C': 4, 'H': 7, 'N': 1, 'O': 2},
    'C': {'C': 3, 'H': 5, 'N': 1, 'O': 1, 'S': 1}, 'I': {'C': 6, 'H': 11, 'N': 1, 'O': 1},
    'L': {'C': 6, 'H': 11, 'N': 1, 'O': 1}, 'J': {'C': 6, 'H': 11, 'N': 1, 'O': 1},
    'N': {'C': 4, 'H': 6, 'N': 2, 'O': 2}, 'D': {'C': 4, 'H': 5, 'N': 1, 'O': 3},
    'Q': {'C': 5, 'H': 8, 'N': 2, 'O': 2}, 'K': {'C': 6, 'H': 12, 'N': 2, 'O': 1},
    'E': {'C': 5, 'H': 7, 'N': 1, 'O': 3}, 'M': {'C': 5, 'H': 9, 'N': 1, 'O': 1, 'S': 1},
    'H': {'C': 6, 'H': 7, 'N': 3, 'O': 1}, 'F': {'C': 9, 'H': 9, 'N': 1, 'O': 1},
    'R': {'C': 6, 'H': 12, 'N': 4, 'O': 1}, 'Y': {'C': 9, 'H': 9, 'N': 1, 'O': 2},
    'W': {'C': 11, 'H': 10, 'N': 2, 'O': 1}, 'U': {'C': 3, 'H': 5, 'N': 1, 'O': 1, 'Se': 1},
    'O': {'C': 12, 'H': 19, 'N': 3, 'O': 2}, 'X': {},
}
# CODATA 2014/2018 (u)
REF_PARTICLES = {'PROTON_MASS': 1.007276466621, 'ELECTRON_MASS': 0.000548579909065, 'NEUTRON_MASS': 1.00866491595}
# NIST relative atomic masses of the isotopes that matter for peptides (u)
REF_ISOTOPES = {
    ('H', 1): 1.00782503223, ('D', 2): 2.01410177812, ('C', 12): 12.0, ('C', 13): 13.00335483507,
    ('N', 14): 14.00307400443, ('N', 15): 15.00010889888, ('O', 16): 15.99491461957, ('O', 17): 16.99913175650,
    ('O', 18): 17.99915961286, ('P', 31): 30.97376199842, ('S', 32): 31.9720711744, ('S', 34): 33.967867004,
    ('Se', 80): 79.9165218, ('Na', 23): 22.9897692820, ('K', 39): 38.9637064864,
}


def cadd(*comps: Comp) -> Comp:
    out: Comp = {}
    for c in comps:
        for k, v in c.items():
            out[k] = out.get(k, 0) + v
    return {k: v for k, v in out.items() if v != 0}


def cneg(c: Comp) -> Comp:
    return {k: -v for k, v in c.items()}


def cscale(c: Comp, n: int) -> Comp:
    return {k: v * n for k, v in c.items() if v * n != 0}


def cnorm(c: Comp) -> Comp:
    return {k: v for k, v in c.items() if v != 0}


def fmt(c: Comp) -> str:
    return '{' + ', '.join(f'{k}:{v}' for k, v in sorted(c.items())) + '}'


_ADDUCT = re.compile(r'^([+-]?)(\d*)([A-Za-z]+?)(\d*)([+-])$')


def adduct_comp(s: str) -> Comp:
    """composition denoted by a ProForma adduct list such as '+2H+,+e-' (own reading of the notation:
    [sign][count]Symbol[charge magnitude][charge sign]; an ion X^q contributes X and -q electrons)"""
    total: Comp = {}
    if s.strip() == '':
        return total
    for part in s.split(','):
        part = part.strip()
        m = _ADDUCT.match(part)
        if not m:
            raise AnalysisError(f'adduct string not understood: {part!r}')
        sign, count, sym, qmag, qsign = m.groups()
        n = int(count) if count else 1
        if sign == '-':
            n = -n
        q = int(qmag) if qmag else 1
        if qsign == '-':
            q = -q
        if sym == 'e':
            # an electron "ion": e- carries charge -1 and *is* the electron
            total = cadd(total, {'e': n * (-q)})
        else:
            total = cadd(total, {sym: n, 'e': -q * n})
    return total


H = {'H': 1}
CO = {'C': 1, 'O': 1}
NH3 = {'N': 1, 'H': 3}
H2 = {'H': 2}
H2O = {'H': 2, 'O': 1}
PROTON = {'H': 1, 'e': -1}


class Tables:
    NAMES = ['FRAGMENT_ION_COMPOSITIONS', 'FRAGMENT_ION_BASE_CHARGE_ADDUCTS', 'NEUTRAL_FRAGMENT_START_COMPOSITIONS',
             'NEUTRAL_FRAGMENT_END_COMPOSITIONS', 'NEUTRAL_FRAGMENT_COMPOSITION_ADJUSTMENTS',
             'FRAGMENT_ION_COMPOSITION_ADJUSTMENTS', 'AA_COMPOSITIONS', 'NTERM_COMPOSITION', 'CTERM_COMPOSITION',
             'FORWARD_ION_TYPES', 'BACKWARD_ION_TYPES', 'INTERNAL_ION_TYPES', 'TERMINAL_ION_TYPES',
             'IMMONIUM_ION_TYPES', 'VALID_ION_TYPES', 'PROTON_MASS', 'ELECTRON_MASS', 'NEUTRON_MASS',
             'AVERAGINE_RATIOS', 'AMINO_ACIDS']

    def __init__(self, program: Program):
        self.ce = ConstEval(program)
        self.program = program
        self.v: Dict[str, Any] = {}
        for n in self.NAMES:
            self.v[n] = self.ce.value('constants', n)
        self.mod = program.module('constants')

    def loc(self, name: str) -> str:
        node = self.mod.assign_nodes.get(name)
        return f'{self.mod.relpath}:{getattr(node, "lineno", "?")}'

    def __getitem__(self, k):
        return self.v[k]

    def T(self, ion: str) -> Comp:
        """full composition offset of the singly charged ion of type `ion` relative to the sum of its residues"""
        return cadd(self.v['NEUTRAL_FRAGMENT_COMPOSITION_ADJUSTMENTS'][ion], self.v['FRAGMENT_ION_COMPOSITIONS'][ion])


Check = Tuple[str, str, bool, str, str]  # (rule id, construct, ok, reason, loc)


def sibling_table_checks(t: Tables) -> List[Check]:
    """C03a: the charge carrier of every ion type is kept twice (as composition and as adduct string)"""
    out: List[Check] = []
    comps = t['FRAGMENT_ION_COMPOSITIONS']
    adds = t['FRAGMENT_ION_BASE_CHARGE_ADDUCTS']
    neutral = t['NEUTRAL_FRAGMENT_COMPOSITION_ADJUSTMENTS']
    full = t['FRAGMENT_ION_COMPOSITION_ADJUSTMENTS']
    ks = set(comps)
    for name, tab in (('FRAGMENT_ION_BASE_CHARGE_ADDUCTS', adds), ('NEUTRAL_FRAGMENT_COMPOSITION_ADJUSTMENTS', neutral),
                      ('FRAGMENT_ION_COMPOSITION_ADJUSTMENTS', full)):
        ok = set(tab) == ks
        out.append(('TAB-keyset', f'{name} has the key set of FRAGMENT_ION_COMPOSITIONS', ok,
                    'same 18 ion types' if ok else f'differs: {sorted(set(tab) ^ ks)}', t.loc(name)))
    valid = t['VALID_ION_TYPES'] | {'p', 'n'}
    ok = ks == valid
    out.append(('TAB-keyset', 'ion tables cover VALID_ION_TYPES + p + n', ok,
                'equal' if ok else f'differs: {sorted(ks ^ valid)}', t.loc('FRAGMENT_ION_COMPOSITIONS')))
    for k in sorted(ks & set(adds)):
        a = adduct_comp(adds[k])
        c = cnorm(comps[k])
        ok = a == c
        out.append(('TAB-adduct-vs-composition', f"FRAGMENT_ION_BASE_CHARGE_ADDUCTS['{k}'] == FRAGMENT_ION_COMPOSITIONS['{k}']",
                    ok, f'both denote {fmt(c)}' if ok else
                    f"adduct string {adds[k]!r} denotes {fmt(a)} but the composition table says {fmt(c)}",
                    t.loc('FRAGMENT_ION_BASE_CHARGE_ADDUCTS')))
    for k in sorted(ks & set(full) & set(neutral)):
        ok = cnorm(full[k]) == cadd(neutral[k], comps[k])
        out.append(('TAB-merged', f"FRAGMENT_ION_COMPOSITION_ADJUSTMENTS['{k}'] == neutral['{k}'] + ion['{k}']", ok,
                    'merged from the same two rows' if ok else
                    f'{fmt(cnorm(full[k]))} != {fmt(cadd(neutral[k], comps[k]))}',
                    t.loc('FRAGMENT_ION_COMPOSITION_ADJUSTMENTS')))
    return out


def series_partition_checks(t: Tables) -> List[Check]:
    out = []
    fw, bw, it, im = t['FORWARD_ION_TYPES'], t['BACKWARD_ION_TYPES'], t['INTERNAL_ION_TYPES'], t['IMMONIUM_ION_TYPES']
    ok = fw == {'a', 'b', 'c'} and bw == {'x', 'y', 'z'}
    out.append(('TAB-series', 'FORWARD = {a,b,c}, BACKWARD = {x,y,z}', ok, 'as the cleavage chemistry defines'
                if ok else f'{sorted(fw)} / {sorted(bw)}', t.loc('FORWARD_ION_TYPES')))
    ok = it == {f + b for f in 'abc' for b in 'xyz'}
    out.append(('TAB-series', 'INTERNAL = {a,b,c} x {x,y,z}', ok, 'all nine pairs' if ok else f'{sorted(it)}',
                t.loc('INTERNAL_ION_TYPES')))
    sets = [fw, bw, it, im]
    disjoint = sum(len(s) for s in sets) == len(set().union(*sets))
    ok = disjoint and set().union(*sets) == t['VALID_ION_TYPES'] and t['TERMINAL_ION_TYPES'] == fw | bw
    out.append(('TAB-series', 'forward/backward/internal/immonium partition VALID_ION_TYPES', ok,
                'disjoint and covering' if ok else 'not a partition', t.loc('VALID_ION_TYPES')))
    return out


def cleavage_chemistry_checks(t: Tables) -> List[Check]:
    """C05a: backbone-cleavage identities, exact at composition level"""
    out: List[Check] = []
    loc = t.loc('NEUTRAL_FRAGMENT_COMPOSITION_ADJUSTMENTS')

    def eq(name, lhs: Comp, rhs: Comp):
        ok = cnorm(lhs) == cnorm(rhs)
        out.append(('TAB-chemistry', name, ok, f'both {fmt(cnorm(rhs))}' if ok else
                    f'left {fmt(cnorm(lhs))}, right {fmt(cnorm(rhs))}', loc))

    T = t.T
    P_neutral = t['NEUTRAL_FRAGMENT_COMPOSITION_ADJUSTMENTS']['p']
    eq('neutral peptide = residues + H2O', P_neutral, H2O)
    eq('T[p] = H2O + proton', T('p'), cadd(H2O, PROTON))
    eq('T[n] = nothing', T('n'), {})
    eq('T[b] + T[y] = T[p-neutral] + 2 protons', cadd(T('b'), T('y')), cadd(P_neutral, PROTON, PROTON))
    eq('T[b] = proton - H... b ion = residues + H - e', T('b'), PROTON)
    eq('T[y] = H2O + proton', T('y'), cadd(H2O, PROTON))
    eq('T[a] = T[b] - CO', T('a'), cadd(T('b'), cneg(CO)))
    eq('T[c] = T[b] + NH3', T('c'), cadd(T('b'), NH3))
    eq('T[x] = T[y] + CO - H2', T('x'), cadd(T('y'), CO, cneg(H2)))
    eq('T[z] = T[y] - NH3', T('z'), cadd(T('y'), cneg(NH3)))
    eq('T[i] = -CO + proton', T('i'), cadd(cneg(CO), PROTON))
    eq('T[by] = proton', T('by'), PROTON)
    eq('T[ay] = T[by] - CO', T('ay'), cadd(T('by'), cneg(CO)))
    eq('T[cy] = T[by] + NH3', T('cy'), cadd(T('by'), NH3))
    for k in sorted(t['FRAGMENT_ION_COMPOSITIONS']):
        if k == 'n':
            continue
        e = T(k).get('e', 0)
        out.append(('TAB-chemistry', f'T[{k}] is singly charged (e = -1)', e == -1,
                    'one electron removed' if e == -1 else f'e = {e}', t.loc('FRAGMENT_ION_COMPOSITIONS')))
    start, end = t['NEUTRAL_FRAGMENT_START_COMPOSITIONS'], t['NEUTRAL_FRAGMENT_END_COMPOSITIONS']
    neutral = t['NEUTRAL_FRAGMENT_COMPOSITION_ADJUSTMENTS']
    for f in 'abc':
        for b in 'xyz':
            k = f + b
            if k in neutral and f in end and b in start:
                ok = cnorm(neutral[k]) == cadd(end[f], start[b])
                out.append(('TAB-chemistry', f"neutral['{k}'] = END['{f}'] + START['{b}']", ok,
                            'the right pair of rows is merged' if ok else
                            f'{fmt(cnorm(neutral[k]))} != {fmt(cadd(end[f], start[b]))}', loc))
    for k in 'abcxyzp':
        if k in neutral and k in start and k in end:
            ok = cnorm(neutral[k]) == cadd(start[k], end[k])
            out.append(('TAB-chemistry', f"neutral['{k}'] = START['{k}'] + END['{k}']", ok,
                        'merged from its own rows' if ok else 'differs', loc))
    return out


def reference_checks(t: Tables) -> List[Check]:
    """C02f: outside oracle for residue compositions, termini and particle masses"""
    out: List[Check] = []
    aa = t['AA_COMPOSITIONS']
    for k in sorted(REF_RESIDUES):
        if k not in aa:
            out.append(('TAB-reference', f"AA_COMPOSITIONS['{k}'] exists", False, 'residue missing', t.loc('AA_COMPOSITIONS')))
            continue
        ok = cnorm(aa[k]) == REF_RESIDUES[k]
        out.append(('TAB-reference', f"AA_COMPOSITIONS['{k}'] equals the reference residue composition", ok,
                    fmt(REF_RESIDUES[k]) if ok else f'{fmt(cnorm(aa[k]))} != reference {fmt(REF_RESIDUES[k])}',
                    t.loc('AA_COMPOSITIONS')))
    extra = set(aa) - set(REF_RESIDUES)
    out.append(('TAB-reference', 'AA_COMPOSITIONS has no residue outside the reference', not extra,
                'same 24 letters' if not extra else f'unknown letters {sorted(extra)}', t.loc('AA_COMPOSITIONS')))
    ok = cnorm(t['NTERM_COMPOSITION']) == H and cnorm(t['CTERM_COMPOSITION']) == {'O': 1, 'H': 1}
    out.append(('TAB-reference', 'NTERM = H, CTERM = OH', ok, 'water split over the termini' if ok else 'differs',
                t.loc('NTERM_COMPOSITION')))
    ok = t['AMINO_ACIDS'] == set(aa) | {'B', 'Z'}
    out.append(('TAB-reference', 'AMINO_ACIDS = residues with a composition + B + Z', ok, '26 letters' if ok else 'differs',
                t.loc('AMINO_ACIDS')))
    for n, ref in REF_PARTICLES.items():
        v = t[n]
        ok = isinstance(v, float) and abs(v - ref) / ref < 5e-9 * (100 if n == 'ELECTRON_MASS' else 10)
        out.append(('TAB-reference', f'{n} equals CODATA', ok, f'{v}' if ok else f'{v} vs CODATA {ref}', t.loc(n)))
    return out


def read_chem_txt(program: Program) -> Dict[Tuple[str, int], Tuple[float, float]]:
    path = os.path.join(program.pkg_dir, 'data', 'chem.txt')
    if not os.path.exists(path):
        raise AnalysisError('data/chem.txt missing')
    out = {}
    cur: Dict[str, str] = {}

    def flush():
        if 'Atomic Symbol' in cur and 'Mass Number' in cur and 'Relative Atomic Mass' in cur:
            comp = cur.get('Isotopic Composition', '')
            out[(cur['Atomic Symbol'], int(cur['Mass Number']))] = (
                float(cur['Relative Atomic Mass'].split('(')[0]), float(comp.split('(')[0]) if comp else 0.0)

    with open(path) as fh:
        for line in fh:
            line = line.strip()
            if not line:
                flush()
                cur = {}
                continue
            k, _, v = line.partition('=')
            cur[k.strip()] = v.strip()
    flush()
    return out


def isotope_table_checks(program: Program) -> List[Check]:
    out: List[Check] = []
    data = read_chem_txt(program)
    for (sym, a), ref in sorted(REF_ISOTOPES.items()):
        got = data.get((sym, a))
        ok = got is not None and abs(got[0] - ref) / ref < 1e-9
        out.append(('TAB-reference', f'data/chem.txt mass of {a}{sym} equals NIST', ok,
                    f'{ref}' if ok else f'{got} vs NIST {ref}', 'src/peptacular/data/chem.txt'))
    return out


def derived_table_checks(program: Program) -> List[Check]:
    """chem_constants.py: each derived float table is a comprehension over exactly its composition table with
    chem_mass in the right mode"""
    mod = program.module('chem.chem_constants')
    expect = {
        'MONOISOTOPIC_FRAGMENT_ADJUSTMENTS': ('NEUTRAL_FRAGMENT_COMPOSITION_ADJUSTMENTS', True),
        'AVERAGE_FRAGMENT_ADJUSTMENTS': ('NEUTRAL_FRAGMENT_COMPOSITION_ADJUSTMENTS', False),
        'MONOISOTOPIC_FRAGMENT_ION_ADJUSTMENTS': ('FRAGMENT_ION_COMPOSITIONS', True),
        'AVERAGE_FRAGMENT_ION_ADJUSTMENTS': ('FRAGMENT_ION_COMPOSITIONS', False),
        'MONOISOTOPIC_ION_ADJUSTMENTS': ('FRAGMENT_ION_COMPOSITION_ADJUSTMENTS', True),
        'AVERAGE_ION_ADJUSTMENTS': ('FRAGMENT_ION_COMPOSITION_ADJUSTMENTS', False),
        'MONOISOTOPIC_AA_MASSES': ('AA_COMPOSITIONS', True),
        'AVERAGE_AA_MASSES': ('AA_COMPOSITIONS', False),
    }
    out: List[Check] = []
    for name, (src, mono) in expect.items():
        e = mod.assigns.get(name)
        loc = f'{mod.relpath}:{getattr(mod.assign_nodes.get(name), "lineno", "?")}'
        if e is None:
            raise AnalysisError(f'anchor table missing: chem_constants.{name}')
        ok, why = _is_mass_comprehension(e, src, mono)
        out.append(('TAB-derived', f'{name} = {{k: chem_mass(comp, monoisotopic={mono}) for k, comp in {src}.items()}}',
                    ok, why, loc))
    for name, mass_tab in (('ISOTOPIC_AVERAGINE_MASS', 'ISOTOPIC_ATOMIC_MASSES'),
                           ('AVERAGE_AVERAGINE_MASS', 'AVERAGE_ATOMIC_MASSES')):
        e = mod.assigns.get(name)
        if e is None:
            raise AnalysisError(f'anchor constant missing: chem_constants.{name}')
        txt = norm_stmt(e)
        ok = 'AVERAGINE_RATIOS.items()' in txt and f'{mass_tab}[' in txt and txt.startswith('sum(') and '*' in txt
        out.append(('TAB-derived', f'{name} = sum(ratio * {mass_tab}[element]) over AVERAGINE_RATIOS', ok,
                    'defined over the same ratio table that estimate_comp scales' if ok else f'unexpected shape: {txt}',
                    f'{mod.relpath}:{getattr(mod.assign_nodes.get(name), "lineno", "?")}'))
    return out


def _is_mass_comprehension(e, src: str, mono: bool) -> Tuple[bool, str]:
    if not isinstance(e, ast.DictComp) or len(e.generators) != 1:
        return False, f'not a dict comprehension: {norm_stmt(e)}'
    g = e.generators[0]
    it = g.iter
    if not (isinstance(it, ast.Call) and isinstance(it.func, ast.Attribute) and it.func.attr == 'items' and
            isinstance(it.func.value, ast.Name) and it.func.value.id == src):
        return False, f'iterates {norm_stmt(it)}, expected {src}.items()'
    if not (isinstance(g.target, ast.Tuple) and len(g.target.elts) == 2 and
            all(isinstance(x, ast.Name) for x in g.target.elts)):
        return False, 'unexpected comprehension target'
    kname, vname = g.target.elts[0].id, g.target.elts[1].id
    if not (isinstance(e.key, ast.Name) and e.key.id == kname):
        return False, 'key is not the table key'
    v = e.value
    if not (isinstance(v, ast.Call) and isinstance(v.func, ast.Name) and v.func.id == 'chem_mass' and v.args and
            isinstance(v.args[0], ast.Name) and v.args[0].id == vname):
        return False, f'value is {norm_stmt(v)}, expected chem_mass({vname}, ...)'
    flag = True
    if len(v.args) > 1 and isinstance(v.args[1], ast.Constant):
        flag = bool(v.args[1].value)
    for kw in v.keywords:
        if kw.arg == 'monoisotopic':
            if not isinstance(kw.value, ast.Constant):
                return False, 'monoisotopic flag is not a constant'
            flag = bool(kw.value.value)
    if flag != mono:
        return False, f'computed with monoisotopic={flag}, the table name promises {mono}'
    return True, 'comprehension over the composition table with chem_mass in the promised mode'
