"""
report: obligations, findings, known-findings matching, evidence files, exit codes.

exit 0  every obligation discharged (KNOWN-FINDING lines printed for listed, still-present defects)
exit 1  at least one violation that known_findings.json does not list (VIOLATION line per finding)
exit 2  the analysis could not be carried out (ANALYSIS-ERROR lines) -- never a silent pass
"""
import json
import os
import time
import hashlib
from typing import List, Optional, Dict, Any

VERIF = os.path.dirname(os.path.dirname(os.path.abspath(__file__)))
KNOWN_FILE = os.path.join(VERIF, 'known_findings.json')


class Obligation:
    __slots__ = ('rule', 'construct', 'loc', 'ok', 'reason', 'nontrivial', 'clause')

    def __init__(self, rule: str, construct: str, loc: str, ok: bool, reason: str, nontrivial: bool = True,
                 clause: str = ''):
        self.rule = rule
        self.construct = construct
        self.loc = loc
        self.ok = ok
        self.reason = reason
        self.nontrivial = nontrivial
        self.clause = clause

    def to_json(self):
        return {'rule': self.rule, 'construct': self.construct, 'loc': self.loc,
                'verdict': 'discharged' if self.ok else 'VIOLATED', 'reason': self.reason, 'clause': self.clause}


class Finding:
    """a violated obligation, keyed without line numbers"""

    def __init__(self, prop: str, rule: str, module: str, qualname: str, construct: str, message: str, loc: str,
                 details: Optional[Dict[str, Any]] = None, clause: str = ''):
        self.prop = prop
        self.rule = rule
        self.module = module
        self.qualname = qualname
        self.construct = construct
        self.message = message
        self.loc = loc
        self.details = details or {}
        self.clause = clause

    def key(self):
        return (self.prop, self.rule, self.module, self.qualname, self.construct)

    def ident(self) -> str:
        h = hashlib.sha1('|'.join(self.key()).encode()).hexdigest()[:10]
        return f'{self.prop}-{self.rule}-{h}'

    def to_json(self):
        return {'property': self.prop, 'rule': self.rule, 'clause': self.clause, 'module': self.module,
                'qualname': self.qualname, 'construct': self.construct, 'message': self.message, 'loc': self.loc,
                'details': self.details}


class Report:
    def __init__(self, prop: str, tier: str, seed: int = 0, dry: bool = False):
        self.dry = dry  # self-test runs: collect findings, write nothing, print nothing
        self.prop = prop
        self.tier = tier
        self.seed = seed
        self.t0 = time.time()
        self.obligations: List[Obligation] = []
        self.findings: List[Finding] = []
        self.errors: List[str] = []
        self.notes: List[str] = []
        self.coverage_extra: Dict[str, Any] = {}
        self.assumptions: List[str] = []
        self.explanation = ''
        self.rule_text = ''
        self.floors: Dict[str, Dict[str, int]] = {}

    # ------------------------------------------------------------------
    def ob(self, rule: str, construct: str, loc: str, ok: bool, reason: str, nontrivial: bool = True,
           clause: str = '') -> Obligation:
        o = Obligation(rule, construct, loc, ok, reason, nontrivial, clause)
        self.obligations.append(o)
        return o

    def violation(self, rule: str, module: str, qualname: str, construct: str, message: str, loc: str,
                  details: Optional[Dict[str, Any]] = None, clause: str = '', count_obligation: bool = True) -> Finding:
        f = Finding(self.prop, rule, module, qualname, construct, message, loc, details, clause)
        self.findings.append(f)
        if count_obligation:
            self.ob(rule, f'{module}:{qualname} :: {construct}', loc, False, message, True, clause)
        return f

    def error(self, msg: str):
        self.errors.append(msg)

    def floor(self, rule: str, what: str, measured: int, minimum: int):
        """instance-count floor: guards against a rule that silently matches nothing"""
        self.floors[f'{rule}:{what}'] = {'measured': measured, 'floor': minimum}
        if measured < minimum:
            self.error(f'{rule}: {what}: matched {measured} instance(s), fewer than the {minimum} confirmed by hand '
                       f'-- the rule would pass vacuously')

    def note(self, msg: str):
        self.notes.append(msg)

    # ------------------------------------------------------------------
    def new_findings(self):
        known = load_known()
        seen, out = set(), []
        for f in self.findings:
            if f.key() in seen:
                continue
            seen.add(f.key())
            if match_known(known, f) is None:
                out.append(f)
        return out

    def finish(self) -> int:
        if self.dry:
            return 1 if self.new_findings() else (2 if self.errors else 0)
        known = load_known()
        out_dir = os.path.join(VERIF, 'out')
        os.makedirs(out_dir, exist_ok=True)
        matched_known = []
        new = []
        seen_keys = set()
        for f in self.findings:
            if f.key() in seen_keys:
                continue
            seen_keys.add(f.key())
            k = match_known(known, f)
            if k is not None:
                matched_known.append((f, k))
            else:
                new.append(f)
        for f, k in matched_known:
            print(f'KNOWN-FINDING: property={self.prop} {f.rule} {f.module}:{f.qualname} :: {f.construct} -- '
                  f'{k.get("what_fails", f.message)}')
        for f in new:
            path = os.path.join(out_dir, f'{f.ident()}.json')
            with open(path, 'w') as fh:
                json.dump({'finding': f.to_json(),
                           'reproduce': f'cd /verif && /venv/bin/python -m sa.check {self.prop} --tier quick',
                           'rule': f.rule, 'tier': self.tier}, fh, indent=1, default=str)
            print(f'VIOLATION property={self.prop} replay={path}')
            print(f'  {f.rule} [{f.clause}] {f.loc} {f.module}:{f.qualname} :: {f.construct}')
            print(f'  {f.message}')
        for e in self.errors:
            print(f'ANALYSIS-ERROR property={self.prop} {e}')
        n_ob = len(self.obligations)
        n_ok = sum(1 for o in self.obligations if o.ok)
        distinct_nontrivial = len({(o.rule, o.construct) for o in self.obligations if o.nontrivial})
        samples = []
        by_rule = {}
        for o in self.obligations:
            by_rule.setdefault(o.rule, []).append(o)
        for r, obs in sorted(by_rule.items()):
            bad = [o for o in obs if not o.ok]
            for o in (bad[:3] + [o for o in obs if o.ok][:2]):
                samples.append(o.to_json())
        cov = {
            'explanation': self.explanation,
            'obligations': n_ob,
            'discharged': n_ok,
            'evaluations': max(n_ob, 1),
            'distinct_nontrivial': distinct_nontrivial,
            'rule': self.rule_text or 'one obligation per (rule, construct) instance found by re-scanning the '
                                     'working tree; non-trivial = discharge needed a resolution/flow/table argument',
            'samples': samples[:40],
            'obligations_per_rule': {r: {'total': len(obs), 'violated': sum(1 for o in obs if not o.ok)}
                                     for r, obs in sorted(by_rule.items())},
            'instance_floors': self.floors,
            'known_findings_matched': [f.key()[1:] for f, _ in matched_known],
            'new_violations': [f.to_json() for f in new],
            'analysis_errors': self.errors,
            'notes': self.notes,
            'exhaustive': True,
        }
        cov.update(self.coverage_extra)
        ev = {
            'property_id': self.prop,
            'tier': self.tier,
            'seed': self.seed,
            'level': 'other',
            'coverage': cov,
            'assumptions': self.assumptions or DEFAULT_ASSUMPTIONS,
            'wall_s': round(time.time() - self.t0, 3),
            'violations': len(new),
        }
        ev_dir = os.path.join(VERIF, 'evidence')
        os.makedirs(ev_dir, exist_ok=True)
        with open(os.path.join(ev_dir, f'{self.prop}.json'), 'w') as fh:
            json.dump(ev, fh, indent=1, default=str)
        print(f'{self.prop} [{self.tier}]: {n_ob} obligations, {n_ok} discharged, {len(new)} new violation(s), '
              f'{len(matched_known)} known finding(s), {len(self.errors)} analysis error(s), '
              f'{ev["wall_s"]}s')
        if new:
            return 1
        if self.errors:
            return 2
        return 0


DEFAULT_ASSUMPTIONS = [
    'CPython ast module parses the working-tree sources exactly as the interpreter would',
    'the engine\'s own type/callee resolution (measured unresolved call sites are listed in coverage); '
    'effects through unresolved calls are not judged',
    'Python semantics of the statement kinds the abstract interpreter models (no exec/eval/monkey-patching)',
    'reference tables embedded in the checker (residue compositions, CODATA/NIST constants) are correct',
]


def load_known() -> List[Dict[str, Any]]:
    if not os.path.exists(KNOWN_FILE):
        return []
    with open(KNOWN_FILE) as fh:
        data = json.load(fh)
    return data.get('findings', [])


def match_known(known: List[Dict[str, Any]], f: Finding) -> Optional[Dict[str, Any]]:
    for k in known:
        if k.get('status') != 'known':
            continue  # 'fixed' entries suppress nothing
        if (k.get('property'), k.get('rule'), k.get('module'), k.get('qualname'), k.get('construct')) == f.key():
            return k
    return None
