"""
consteval: partial evaluator for module-level constants (tables in constants.py and friends).

Evaluates literals, displays, names across modules, constant subscripts, set `|`, arithmetic, `set(x.keys())`,
dict comprehensions over evaluated tables and the natively modelled pure helper `merge_dicts` (whose body is
checked structurally before the model is trusted).  Anything else is TOP and the dependent obligation becomes
an analysis error, never a pass.
"""
import ast
from typing import Any, Dict, Optional

from .loader import Program, AnalysisError, norm_stmt


class Top(Exception):
    pass


class ConstEval:
    def __init__(self, program: Program):
        self.program = program
        self._cache: Dict[tuple, Any] = {}
        self._busy = set()

    def value(self, modname: str, name: str) -> Any:
        """evaluate module-level `name` of module `modname` (AnalysisError if it cannot be evaluated)"""
        try:
            return self._global(self._mod(modname), name)
        except Top as e:
            raise AnalysisError(f'cannot evaluate constant {modname}:{name}: {e}')

    def _mod(self, modname: str):
        if not modname.startswith('peptacular'):
            modname = 'peptacular.' + modname
        return self.program.module(modname)

    def _global(self, module, name: str):
        r = self.program.resolve_name(module.name, name)
        if r is None:
            raise Top(f'unknown name {name}')
        if r[0] == 'global':
            key = (r[1], r[2])
            if key in self._cache:
                return self._cache[key]
            if key in self._busy:
                raise Top(f'cyclic definition {key}')
            self._busy.add(key)
            try:
                v = self.ev(r[3], self.program.modules[r[1]], {})
            finally:
                self._busy.discard(key)
            self._cache[key] = v
            return v
        raise Top(f'{name} is not a module-level constant ({r[0]})')

    # ------------------------------------------------------------------
    def ev(self, e, module, local: Dict[str, Any]):
        if isinstance(e, ast.Constant):
            return e.value
        if isinstance(e, ast.Name):
            if e.id in local:
                return local[e.id]
            if e.id in ('True', 'False', 'None'):
                return {'True': True, 'False': False, 'None': None}[e.id]
            return self._global(module, e.id)
        if isinstance(e, ast.Dict):
            out = {}
            for k, v in zip(e.keys, e.values):
                if k is None:
                    out.update(self.ev(v, module, local))
                else:
                    out[self.ev(k, module, local)] = self.ev(v, module, local)
            return out
        if isinstance(e, ast.Set):
            return set(self.ev(x, module, local) for x in e.elts)
        if isinstance(e, ast.List):
            return [self.ev(x, module, local) for x in e.elts]
        if isinstance(e, ast.Tuple):
            return tuple(self.ev(x, module, local) for x in e.elts)
        if isinstance(e, ast.UnaryOp) and isinstance(e.op, ast.USub):
            return -self.ev(e.operand, module, local)
        if isinstance(e, ast.BinOp):
            a = self.ev(e.left, module, local)
            b = self.ev(e.right, module, local)
            if isinstance(e.op, ast.BitOr) and isinstance(a, (set, frozenset)) and isinstance(b, (set, frozenset)):
                return set(a) | set(b)
            if isinstance(a, (int, float)) and isinstance(b, (int, float)):
                if isinstance(e.op, ast.Add):
                    return a + b
                if isinstance(e.op, ast.Sub):
                    return a - b
                if isinstance(e.op, ast.Mult):
                    return a * b
                if isinstance(e.op, ast.Div):
                    return a / b
            if isinstance(e.op, ast.Add) and isinstance(a, (str, list, tuple)) and type(a) is type(b):
                return a + b
            raise Top(f'unsupported operation {norm_stmt(e)}')
        if isinstance(e, ast.Subscript):
            base = self.ev(e.value, module, local)
            idx = self.ev(e.slice, module, local)
            try:
                return base[idx]
            except Exception:
                raise Top(f'bad subscript {norm_stmt(e)}')
        if isinstance(e, ast.DictComp) and len(e.generators) == 1 and not e.generators[0].ifs:
            g = e.generators[0]
            it = self._iter(g.iter, module, local)
            out = {}
            for item in it:
                loc = dict(local)
                self._bind(g.target, item, loc)
                out[self.ev(e.key, module, loc)] = self.ev(e.value, module, loc)
            return out
        if isinstance(e, (ast.ListComp, ast.SetComp)) and len(e.generators) == 1 and not e.generators[0].ifs:
            g = e.generators[0]
            it = self._iter(g.iter, module, local)
            vals = []
            for item in it:
                loc = dict(local)
                self._bind(g.target, item, loc)
                vals.append(self.ev(e.elt, module, loc))
            return vals if isinstance(e, ast.ListComp) else set(vals)
        if isinstance(e, ast.Call):
            return self._call(e, module, local)
        if isinstance(e, ast.Compare) and len(e.ops) == 1:
            a = self.ev(e.left, module, local)
            b = self.ev(e.comparators[0], module, local)
            op = e.ops[0]
            table = {ast.Eq: lambda: a == b, ast.NotEq: lambda: a != b, ast.In: lambda: a in b,
                     ast.NotIn: lambda: a not in b, ast.Lt: lambda: a < b, ast.Gt: lambda: a > b,
                     ast.LtE: lambda: a <= b, ast.GtE: lambda: a >= b}
            for k, fn in table.items():
                if isinstance(op, k):
                    return fn()
            raise Top(f'unsupported comparison {norm_stmt(e)}')
        if isinstance(e, ast.DictComp) and len(e.generators) == 1:
            g = e.generators[0]
            out = {}
            for item in self._iter(g.iter, module, local):
                loc = dict(local)
                self._bind(g.target, item, loc)
                if all(self.ev(c, module, loc) for c in g.ifs):
                    out[self.ev(e.key, module, loc)] = self.ev(e.value, module, loc)
            return out
        raise Top(f'unsupported expression {norm_stmt(e)}')

    def _bind(self, target, item, loc):
        if isinstance(target, ast.Name):
            loc[target.id] = item
        elif isinstance(target, (ast.Tuple, ast.List)):
            item = list(item)
            if len(item) != len(target.elts):
                raise Top('unpack mismatch')
            for t, v in zip(target.elts, item):
                self._bind(t, v, loc)
        else:
            raise Top('unsupported comprehension target')

    def _iter(self, e, module, local):
        if isinstance(e, ast.Call) and isinstance(e.func, ast.Attribute) and e.func.attr in ('items', 'keys', 'values') \
                and not e.args:
            base = self.ev(e.func.value, module, local)
            if not isinstance(base, dict):
                raise Top('items() of a non-dict')
            return list(getattr(base, e.func.attr)())
        v = self.ev(e, module, local)
        if isinstance(v, (list, tuple, set, dict)):
            return list(v)
        raise Top(f'cannot iterate {norm_stmt(e)}')

    def _call(self, e: ast.Call, module, local):
        fn = e.func
        if isinstance(fn, ast.Name):
            name = fn.id
            if name in ('set', 'list', 'tuple', 'sorted', 'frozenset') and len(e.args) == 1 and not e.keywords:
                v = self._iter(e.args[0], module, local)
                if name == 'sorted':
                    return sorted(v)
                return {'set': set, 'list': list, 'tuple': tuple, 'frozenset': set}[name](v)
            if name == 'dict' and len(e.args) == 1:
                return dict(self.ev(e.args[0], module, local))
            if name == 'len' and len(e.args) == 1:
                return len(self._iter(e.args[0], module, local))
            r = self.program.resolve_name(module.name, name)
            if r and r[0] == 'func' and r[1].fq in PURE_HELPERS:
                args = [self.ev(a, module, local) for a in e.args]
                if e.keywords:
                    raise Top('keyword arguments to a folded helper')
                return self._fold_function(r[1], args)
        if isinstance(fn, ast.Attribute) and fn.attr in ('keys', 'values', 'items') and not e.args:
            return self._iter(e, module, local)
        if isinstance(fn, ast.Attribute) and fn.attr == 'get' and 1 <= len(e.args) <= 2:
            base = self.ev(fn.value, module, local)
            if isinstance(base, dict):
                k = self.ev(e.args[0], module, local)
                d = self.ev(e.args[1], module, local) if len(e.args) == 2 else None
                return base.get(k, d)
        if isinstance(fn, ast.Attribute) and fn.attr == 'copy' and not e.args:
            base = self.ev(fn.value, module, local)
            if isinstance(base, (dict, list, set)):
                return base.copy()
        if isinstance(fn, ast.Attribute) and fn.attr == 'compile' and e.args and isinstance(e.args[0], ast.Constant):
            return ('regex', e.args[0].value)
        raise Top(f'call not modelled: {norm_stmt(e)}')

    # ------------------------------------------------------------------
    # constant folding of the pure table-building helper(s): a deliberately tiny statement subset
    def _fold_function(self, f, args):
        if len(args) != len(f.params):
            raise Top(f'arity mismatch folding {f.fq}')
        loc = {p.name: a for p, a in zip(f.params, args)}
        r = self._fold_block(f.node.body, f.module, loc, 0)
        if r is _NORETURN:
            return None
        return r

    def _fold_block(self, body, module, loc, depth):
        if depth > 6:
            raise Top('folding depth')
        for st in body:
            if isinstance(st, ast.Expr) and isinstance(st.value, ast.Constant):
                continue
            if isinstance(st, ast.Assign) and len(st.targets) == 1:
                v = self.ev(st.value, module, loc)
                self._fold_store(st.targets[0], v, module, loc)
            elif isinstance(st, ast.AugAssign) and isinstance(st.op, (ast.Add, ast.Sub)):
                cur = self.ev(st.target, module, loc)
                v = self.ev(st.value, module, loc)
                self._fold_store(st.target, cur + v if isinstance(st.op, ast.Add) else cur - v, module, loc)
            elif isinstance(st, ast.For) and not st.orelse:
                for item in self._iter(st.iter, module, loc):
                    self._bind(st.target, item, loc)
                    r = self._fold_block(st.body, module, loc, depth + 1)
                    if r is not _NORETURN:
                        return r
            elif isinstance(st, ast.If):
                c = self.ev(st.test, module, loc)
                r = self._fold_block(st.body if c else st.orelse, module, loc, depth + 1)
                if r is not _NORETURN:
                    return r
            elif isinstance(st, ast.Return):
                return self.ev(st.value, module, loc) if st.value is not None else None
            else:
                raise Top(f'statement not foldable: {norm_stmt(st)}')
        return _NORETURN

    def _fold_store(self, target, v, module, loc):
        if isinstance(target, ast.Name):
            loc[target.id] = v
        elif isinstance(target, ast.Subscript):
            base = self.ev(target.value, module, loc)
            if not isinstance(base, (dict, list)):
                raise Top('store into a non-container')
            base[self.ev(target.slice, module, loc)] = v
        else:
            raise Top('unsupported store target')


_NORETURN = object()
PURE_HELPERS = {'peptacular.util:merge_dicts'}
