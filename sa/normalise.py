"""
normalise: read new helpers through.

The rules of this checker were written against an inventory of the functions of the package (sa/inventory.json: every
function of the reference tree with a digest of its body).  When a later tree splits one of those functions into
helpers, drives it from a table or feeds it from a generator, the *computation* is the same but the anchor function no
longer contains it.  This module rewrites -- in memory, on the parsed module, nothing is executed -- every function
whose body differs from the inventory:

  * calls of helpers that are not in the inventory (new private functions / methods of the same module) are inlined:
    a helper made of assignments, guard clauses and returns becomes an expression (conditional expressions for the
    guards); a helper with statements is inlined at statement level where its result is assigned, returned or dropped;
    a generator helper consumed by `for x in helper(..)` or `yield from helper(..)` is inlined with every `yield e`
    replaced by `x = e; <loop body>`;
  * loops over literal tables are written out row by row (sa/unroll.py), parameterless lambdas are applied, a lambda
    passed as an argument is applied where the parameter is called, `t.__getitem__(k)` is read as `t[k]`.

All of these preserve what is computed (evaluation order of pure argument expressions aside), so rules see the
computation where they expect it.  Functions whose digest equals the inventory are not touched: on the reference tree
the analysis is exactly what it was.  Helper definitions stay in the module (the effect and raise rules still see them).
A helper that cannot be inlined by these means is left as a call -- the rules then see a call they may not understand
and fail closed, as before.
"""
import ast
import copy
import hashlib
import json
import os
from typing import Dict, List, Optional, Tuple

_INV_PATH = os.path.join(os.path.dirname(os.path.abspath(__file__)), 'inventory.json')
_inventory_cache = None


def inventory() -> Dict[str, Dict[str, str]]:
    global _inventory_cache
    if _inventory_cache is None:
        try:
            _inventory_cache = json.load(open(_INV_PATH))
        except Exception:
            _inventory_cache = {}
    return _inventory_cache


def body_digest(fn: ast.AST) -> str:
    body = list(fn.body)
    if body and isinstance(body[0], ast.Expr) and isinstance(body[0].value, ast.Constant) and \
            isinstance(body[0].value.value, str):
        body = body[1:]
    h = hashlib.sha256()
    h.update(ast.dump(fn.args).encode())
    for st in body:
        h.update(ast.dump(st).encode())
    return h.hexdigest()[:16]


def module_functions(tree: ast.Module) -> Dict[str, Tuple[ast.AST, Optional[ast.ClassDef]]]:
    """qualname -> (function node, enclosing class) for module-level functions and methods (not nested functions)"""
    out = {}
    for n in tree.body:
        if isinstance(n, (ast.FunctionDef, ast.AsyncFunctionDef)):
            out[n.name] = (n, None)
        elif isinstance(n, ast.ClassDef):
            for m in n.body:
                if isinstance(m, (ast.FunctionDef, ast.AsyncFunctionDef)):
                    out[f'{n.name}.{m.name}'] = (m, n)
    return out


class CannotInline(Exception):
    pass


# ---------------------------------------------------------------------------------------------------------------------
def _strip_doc(body):
    if body and isinstance(body[0], ast.Expr) and isinstance(body[0].value, ast.Constant) and \
            isinstance(body[0].value.value, str):
        return body[1:]
    return list(body)


def _is_generator(fn) -> bool:
    for n in ast.walk(fn):
        if n is fn:
            continue
        if isinstance(n, (ast.Yield, ast.YieldFrom)):
            # not inside a nested def / lambda
            return True
    return False


def _own_nodes(fn):
    stack = list(fn.body)
    while stack:
        n = stack.pop()
        yield n
        for ch in ast.iter_child_nodes(n):
            if isinstance(ch, (ast.FunctionDef, ast.AsyncFunctionDef, ast.ClassDef, ast.Lambda)):
                continue
            stack.append(ch)


def _stored_names(fn) -> set:
    out = set()
    for n in _own_nodes(fn):
        if isinstance(n, ast.Name) and isinstance(n.ctx, (ast.Store, ast.Del)):
            out.add(n.id)
        elif isinstance(n, ast.ExceptHandler) and n.name:
            out.add(n.name)
    # comprehension targets are scoped to the comprehension: leave them alone
    comp = set()
    for n in _own_nodes(fn):
        if isinstance(n, ast.comprehension):
            for x in ast.walk(n.target):
                if isinstance(x, ast.Name):
                    comp.add(x.id)
    return out - comp


class _Rename(ast.NodeTransformer):
    def __init__(self, mapping: Dict[str, str], subst: Dict[str, ast.AST]):
        self.mapping = mapping
        self.subst = subst

    def visit_Name(self, n):
        if n.id in self.mapping:
            return ast.copy_location(ast.Name(id=self.mapping[n.id], ctx=n.ctx), n)
        if isinstance(n.ctx, ast.Load) and n.id in self.subst:
            return ast.copy_location(copy.deepcopy(self.subst[n.id]), n)
        return n

    def visit_ExceptHandler(self, n):
        n = self.generic_visit(n)
        if n.name in self.mapping:
            n.name = self.mapping[n.name]
        return n

    def _scoped(self, n, bound):
        inner = _Rename({k: v for k, v in self.mapping.items() if k not in bound},
                        {k: v for k, v in self.subst.items() if k not in bound})
        return inner.generic_visit(n)

    def visit_Lambda(self, n):
        bound = {a.arg for a in n.args.args + n.args.kwonlyargs + n.args.posonlyargs}
        if n.args.vararg:
            bound.add(n.args.vararg.arg)
        if n.args.kwarg:
            bound.add(n.args.kwarg.arg)
        return self._scoped(n, bound)

    def visit_FunctionDef(self, n):
        bound = {a.arg for a in n.args.args + n.args.kwonlyargs + n.args.posonlyargs}
        return self._scoped(n, bound)

    def _comp(self, n):
        bound = {x.id for g in n.generators for x in ast.walk(g.target) if isinstance(x, ast.Name)}
        # the first iterable is evaluated in the enclosing scope
        first = self.visit(n.generators[0].iter)
        out = self._scoped(n, bound)
        out.generators[0].iter = first
        return out

    visit_ListComp = visit_SetComp = visit_GeneratorExp = visit_DictComp = _comp


class _Helper:
    def __init__(self, qual: str, node: ast.FunctionDef, cls: Optional[ast.ClassDef]):
        self.qual = qual
        self.node = node
        self.cls = cls
        self.name = node.name
        decos = [ast.unparse(d) for d in node.decorator_list]
        self.static = 'staticmethod' in decos
        self.classmethod = 'classmethod' in decos
        self.other_deco = [d for d in decos if d not in ('staticmethod', 'classmethod')]
        self.is_gen = _is_generator(node)


class Inliner:
    def __init__(self, helpers: Dict[str, _Helper]):
        self.helpers = helpers
        self.counter = 0
        self.inlined: List[str] = []
        self.caller_names: set = set()

    # -- which helper does a call mean ----------------------------------------------------------------------------------
    def target(self, call: ast.Call, cls: Optional[ast.ClassDef]) -> Optional[Tuple[_Helper, Optional[ast.AST]]]:
        f = call.func
        if isinstance(f, ast.Name) and f.id in self.helpers and self.helpers[f.id].cls is None:
            return self.helpers[f.id], None
        if isinstance(f, ast.Attribute) and isinstance(f.value, ast.Name) and cls is not None:
            q = f'{cls.name}.{f.attr}'
            if q in self.helpers and f.value.id in ('self', 'cls', cls.name):
                h = self.helpers[q]
                return h, (None if (h.static or f.value.id == cls.name and not h.classmethod) else f.value)
        if isinstance(f, ast.Attribute) and isinstance(f.value, ast.Name):
            # ClassName.helper(...) from outside the class (static helpers)
            for q, h in self.helpers.items():
                if h.cls is not None and q == f'{f.value.id}.{f.attr}' and h.static:
                    return h, None
        return None

    def bind(self, h: _Helper, call: ast.Call, receiver: Optional[ast.AST]) -> Dict[str, ast.AST]:
        a = h.node.args
        if a.vararg or a.kwarg or h.other_deco:
            raise CannotInline('signature')
        params = [x.arg for x in a.posonlyargs + a.args]
        bind: Dict[str, ast.AST] = {}
        pos = list(call.args)
        if any(isinstance(x, ast.Starred) for x in pos) or any(k.arg is None for k in call.keywords):
            raise CannotInline('star arguments')
        if h.cls is not None and not h.static:
            if receiver is None:
                raise CannotInline('unbound method')
            bind[params[0]] = receiver
            params = params[1:]
        if len(pos) > len(params):
            raise CannotInline('arity')
        for p, v in zip(params, pos):
            bind[p] = v
        kwonly = [x.arg for x in a.kwonlyargs]
        for k in call.keywords:
            if k.arg not in params and k.arg not in kwonly:
                raise CannotInline('unknown keyword')
            bind[k.arg] = k.value
        allp = a.posonlyargs + a.args
        for p, d in zip(allp[len(allp) - len(a.defaults):], a.defaults):
            bind.setdefault(p.arg, d)
        for p, d in zip(a.kwonlyargs, a.kw_defaults):
            if d is not None:
                bind.setdefault(p.arg, d)
        for p in params + kwonly:
            if p not in bind:
                raise CannotInline('missing argument')
        return bind

    def fresh(self, h: _Helper) -> str:
        self.counter += 1
        return f'__{h.name.strip("_")}{self.counter}'

    # -- a helper as an expression ----------------------------------------------------------------------------------
    def as_expr(self, h: _Helper, bind: Dict[str, ast.AST]) -> Optional[ast.AST]:
        if h.is_gen:
            return None
        stored = _stored_names(h.node)
        if stored & set(bind):
            return None       # a parameter is re-bound in the helper: not a pure substitution

        def expr_of(stmts, env) -> Optional[ast.AST]:
            if not stmts:
                return ast.Constant(value=None)
            st, rest = stmts[0], stmts[1:]
            if isinstance(st, ast.Return):
                return _Rename({}, env).visit(copy.deepcopy(st.value)) if st.value is not None else ast.Constant(value=None)
            if isinstance(st, ast.Assign) and len(st.targets) == 1 and isinstance(st.targets[0], ast.Name):
                env2 = dict(env)
                env2[st.targets[0].id] = _Rename({}, env).visit(copy.deepcopy(st.value))
                return expr_of(rest, env2)
            if isinstance(st, ast.If):
                a = expr_of(list(st.body), env)
                if a is None or not _always_returns(st.body):
                    return None
                b = expr_of(list(st.orelse) + rest, env) if not (st.orelse and _always_returns(st.orelse)) else \
                    expr_of(list(st.orelse), env)
                if b is None:
                    return None
                return ast.IfExp(test=_Rename({}, env).visit(copy.deepcopy(st.test)), body=a, orelse=b)
            if isinstance(st, ast.Pass):
                return expr_of(rest, env)
            return None
        # a local bound twice cannot be substituted
        body = _strip_doc(h.node.body)
        counts: Dict[str, int] = {}
        for n in _own_nodes(h.node):
            if isinstance(n, ast.Name) and isinstance(n.ctx, ast.Store):
                counts[n.id] = counts.get(n.id, 0) + 1
        if any(v > 1 for v in counts.values()):
            # allowed when the bindings sit in different branches only: keep it simple, refuse
            return None
        return expr_of(body, dict(bind))

    # -- a helper as statements ---------------------------------------------------------------------------------------
    def as_stmts(self, h: _Helper, bind: Dict[str, ast.AST], result: Optional[ast.AST], mode: str) -> List[ast.stmt]:
        """mode: 'assign' (result is the target), 'return', 'drop'"""
        if h.is_gen:
            raise CannotInline('generator')
        sfx = self.fresh(h)
        stored = _stored_names(h.node)
        mapping = {n: n + sfx for n in stored if n in self.caller_names}
        self.caller_names |= {n for n in stored if n not in mapping}
        # the helper builds its result in one local and returns it everywhere (`m = 0.0 ... return m`), and the caller
        # assigns the call to a plain name that the arguments do not mention: the local *is* the caller's variable
        fused = None
        if mode == 'assign' and isinstance(result, ast.Name):
            rets = [x for x in _own_nodes(h.node) if isinstance(x, ast.Return)]
            names = {x.value.id for x in rets if isinstance(x.value, ast.Name)}
            if rets and len(names) == 1 and all(isinstance(x.value, ast.Name) for x in rets):
                v = next(iter(names))
                arg_names = {y.id for a in bind.values() for y in ast.walk(a) if isinstance(y, ast.Name)}
                if v in stored and v not in bind and result.id not in arg_names:
                    mapping[v] = result.id
                    fused = result.id
        pre: List[ast.stmt] = []
        subst = {}
        for p, v in bind.items():
            if p in stored:
                mapping.setdefault(p, p + sfx)
                pre.append(ast.Assign(targets=[ast.Name(id=mapping[p], ctx=ast.Store())], value=copy.deepcopy(v)))
            else:
                subst[p] = v
        rn = _Rename(mapping, subst)
        body = [rn.visit(copy.deepcopy(s)) for s in _strip_doc(h.node.body)]

        def ret(e) -> List[ast.stmt]:
            e = e if e is not None else ast.Constant(value=None)
            if mode == 'return':
                return [ast.Return(value=e)]
            if mode == 'assign':
                if fused is not None and isinstance(e, ast.Name) and e.id == fused:
                    return []
                return [ast.Assign(targets=[copy.deepcopy(result)], value=e)]
            return [ast.Expr(value=e)] if not isinstance(e, ast.Constant) else []

        def has_return(nodes) -> bool:
            for s in nodes:
                for x in ast.walk(s):
                    if isinstance(x, ast.Return):
                        return True
            return False

        def tr(stmts) -> Tuple[List[ast.stmt], bool]:
            out: List[ast.stmt] = []
            for k, st in enumerate(stmts):
                if isinstance(st, ast.Return):
                    out += ret(st.value)
                    return out, True
                if isinstance(st, ast.If):
                    b1, r1 = tr(list(st.body))
                    b2, r2 = tr(list(st.orelse))
                    if (not r1 and has_return(st.body)) or (not r2 and has_return(st.orelse)):
                        raise CannotInline('a return on part of the paths of a branch')
                    if r1 and r2:
                        out.append(ast.If(test=st.test, body=b1 or [ast.Pass()], orelse=b2))
                        return out, True
                    if r1 or r2:
                        rest, rr = tr(list(stmts[k + 1:]))
                        if r1:
                            out.append(ast.If(test=st.test, body=b1 or [ast.Pass()], orelse=b2 + rest))
                        else:
                            out.append(ast.If(test=st.test, body=(b1 + rest) or [ast.Pass()], orelse=b2 or []))
                        return out, rr
                    out.append(ast.If(test=st.test, body=b1 or [ast.Pass()], orelse=b2))
                    continue
                if isinstance(st, (ast.For, ast.While, ast.Try, ast.With)) and has_return([st]):
                    raise CannotInline('return inside a loop / try / with')
                out.append(st)
            return out, False
        new, always = tr(body)
        if not always and mode == 'assign':
            new += ret(None)
        out = pre + new
        for s in out:
            ast.fix_missing_locations(s)
        return out

    # -- a generator helper consumed by a for loop ------------------------------------------------------------------------
    def gen_into_for(self, h: _Helper, bind, loop: ast.For) -> List[ast.stmt]:
        if loop.orelse:
            raise CannotInline('for-else')
        if _own_break(loop.body):
            raise CannotInline('break in the consuming loop')
        return self._gen_body(h, bind, lambda e: [ast.Assign(targets=[copy.deepcopy(loop.target)], value=e)] +
                              copy.deepcopy(loop.body),
                              lambda it: [ast.For(target=copy.deepcopy(loop.target), iter=it,
                                                  body=copy.deepcopy(loop.body), orelse=[])],
                              needs_loop=_own_continue(loop.body))

    def gen_into_yield_from(self, h: _Helper, bind) -> List[ast.stmt]:
        return self._gen_body(h, bind, lambda e: [ast.Expr(value=ast.Yield(value=e))],
                              lambda it: [ast.Expr(value=ast.YieldFrom(value=it))], needs_loop=False)

    def _gen_body(self, h, bind, on_yield, on_yield_from, needs_loop: bool) -> List[ast.stmt]:
        sfx = self.fresh(h)
        stored = _stored_names(h.node)
        mapping = {n: n + sfx for n in stored if n in self.caller_names or n in bind}
        self.caller_names |= {n for n in stored if n not in mapping}
        pre: List[ast.stmt] = []
        subst = {}
        for p, v in bind.items():
            if p in stored:
                pre.append(ast.Assign(targets=[ast.Name(id=mapping[p], ctx=ast.Store())], value=copy.deepcopy(v)))
            else:
                subst[p] = v
        rn = _Rename(mapping, subst)
        body = [rn.visit(copy.deepcopy(s)) for s in _strip_doc(h.node.body)]

        def tr(stmts, in_loop: bool) -> List[ast.stmt]:
            out: List[ast.stmt] = []
            for k, st in enumerate(stmts):
                if isinstance(st, ast.Expr) and isinstance(st.value, ast.Yield):
                    if needs_loop and not in_loop:
                        raise CannotInline('continue in the consuming loop, yield outside a loop')
                    out += on_yield(st.value.value if st.value.value is not None else ast.Constant(value=None))
                elif isinstance(st, ast.Expr) and isinstance(st.value, ast.YieldFrom):
                    out += on_yield_from(st.value.value)
                elif isinstance(st, ast.Return):
                    if st.value is not None:
                        raise CannotInline('generator returns a value')
                    if k != len(stmts) - 1 or in_loop:
                        raise CannotInline('early return in a generator')
                    # a bare return at the tail of a branch: handled by the caller of this block (guard clause)
                    out.append(ast.Pass())
                    return out
                elif isinstance(st, ast.If):
                    b1 = tr(list(st.body), in_loop)
                    ends = bool(st.body) and isinstance(st.body[-1], ast.Return)
                    if ends and not in_loop:
                        rest = tr(list(st.orelse) + list(stmts[k + 1:]), in_loop)
                        out.append(ast.If(test=st.test, body=b1 or [ast.Pass()], orelse=rest))
                        return out
                    b2 = tr(list(st.orelse), in_loop)
                    out.append(ast.If(test=st.test, body=b1 or [ast.Pass()], orelse=b2))
                elif isinstance(st, (ast.For, ast.While)):
                    st2 = copy.copy(st)
                    st2.body = tr(list(st.body), True) or [ast.Pass()]
                    st2.orelse = tr(list(st.orelse), in_loop)
                    out.append(st2)
                elif isinstance(st, ast.With):
                    st2 = copy.copy(st)
                    st2.body = tr(list(st.body), in_loop) or [ast.Pass()]
                    out.append(st2)
                elif isinstance(st, ast.Try):
                    if any(isinstance(x, (ast.Yield, ast.YieldFrom)) for x in ast.walk(st)):
                        raise CannotInline('yield inside try')
                    out.append(st)
                else:
                    if any(isinstance(x, (ast.Yield, ast.YieldFrom)) for x in ast.walk(st)):
                        raise CannotInline('yield used as an expression')
                    out.append(st)
            return out
        out = pre + tr(body, False)
        for s in out:
            ast.fix_missing_locations(s)
        return out


def _always_returns(stmts) -> bool:
    if not stmts:
        return False
    last = stmts[-1]
    if isinstance(last, (ast.Return, ast.Raise)):
        return True
    if isinstance(last, ast.If):
        return _always_returns(last.body) and _always_returns(last.orelse)
    return False


def _own_break(body) -> bool:
    def rec(nodes):
        for s in nodes:
            if isinstance(s, ast.Break):
                return True
            if isinstance(s, (ast.For, ast.While, ast.FunctionDef)):
                continue
            for fld in ('body', 'orelse', 'finalbody'):
                sub = getattr(s, fld, None)
                if isinstance(sub, list) and rec([x for x in sub if isinstance(x, ast.stmt)]):
                    return True
            for hd in getattr(s, 'handlers', []) or []:
                if rec(hd.body):
                    return True
        return False
    return rec(body)


def _own_continue(body) -> bool:
    def rec(nodes):
        for s in nodes:
            if isinstance(s, ast.Continue):
                return True
            if isinstance(s, (ast.For, ast.While, ast.FunctionDef)):
                continue
            for fld in ('body', 'orelse', 'finalbody'):
                sub = getattr(s, fld, None)
                if isinstance(sub, list) and rec([x for x in sub if isinstance(x, ast.stmt)]):
                    return True
            for hd in getattr(s, 'handlers', []) or []:
                if rec(hd.body):
                    return True
        return False
    return rec(body)


# ---------------------------------------------------------------------------------------------------------------------
class _BetaArgs(ast.NodeTransformer):
    """(lambda a, b: e)(x, y) -> e[a:=x, b:=y] ; t.__getitem__(k) -> t[k] ; `a if True else b` -> a ; `if False:` dropped
    (what substituting constant arguments leaves behind)"""

    def visit_IfExp(self, n):
        n = self.generic_visit(n)
        if isinstance(n.test, ast.Constant) and isinstance(n.test.value, bool):
            return n.body if n.test.value else n.orelse
        return n

    def visit_If(self, n):
        n = self.generic_visit(n)
        if isinstance(n.test, ast.Constant) and isinstance(n.test.value, bool):
            return (n.body if n.test.value else n.orelse) or [ast.copy_location(ast.Pass(), n)]
        return n

    def visit_Call(self, n):
        n = self.generic_visit(n)
        f = n.func
        if isinstance(f, ast.Lambda) and not n.keywords and not f.args.kwarg and not f.args.kwonlyargs and \
                not any(isinstance(a, ast.Starred) for a in n.args):
            used = {x.id for x in ast.walk(f.body) if isinstance(x, ast.Name)}
            if f.args.vararg is None and len(f.args.args) == len(n.args) or \
                    (f.args.vararg is not None and f.args.vararg.arg not in used and len(f.args.args) <= len(n.args)):
                env = {p.arg: a for p, a in zip(f.args.args, n.args)}
                return ast.copy_location(_Rename({}, env).visit(copy.deepcopy(f.body)), n)
        if isinstance(f, ast.Attribute) and f.attr == '__getitem__' and len(n.args) == 1 and not n.keywords:
            return ast.copy_location(ast.Subscript(value=f.value, slice=n.args[0], ctx=ast.Load()), n)
        return n


def _expr_fields(st: ast.stmt):
    """the expressions of a statement that are evaluated as part of the statement itself (not its nested blocks)"""
    for name, val in ast.iter_fields(st):
        if name in ('body', 'orelse', 'finalbody', 'handlers'):
            continue
        if isinstance(val, ast.AST):
            yield name, val
        elif isinstance(val, list):
            for i, v in enumerate(val):
                if isinstance(v, ast.AST):
                    yield (name, i), v


class _ReplaceCalls(ast.NodeTransformer):
    def __init__(self, inl: Inliner, cls):
        self.inl = inl
        self.cls = cls
        self.changed = False

    def visit_Lambda(self, n):
        return n

    def visit_Call(self, n):
        n = self.generic_visit(n)
        t = self.inl.target(n, self.cls)
        if t is None:
            return n
        h, recv = t
        try:
            bind = self.inl.bind(h, n, recv)
            e = self.inl.as_expr(h, bind)
        except CannotInline:
            return n
        if e is None:
            return n
        self.changed = True
        self.inl.inlined.append(h.qual)
        return ast.copy_location(e, n)


def _unconditional_calls(e: ast.AST):
    """calls inside e that are evaluated whenever e is (not under a lambda, a comprehension, the arms of a conditional
    expression or the later operands of and/or)"""
    if isinstance(e, (ast.Lambda, ast.ListComp, ast.SetComp, ast.DictComp, ast.GeneratorExp)):
        if not isinstance(e, ast.Lambda) and e.generators:
            yield from _unconditional_calls(e.generators[0].iter)
        return
    if isinstance(e, ast.IfExp):
        yield from _unconditional_calls(e.test)
        return
    if isinstance(e, ast.BoolOp):
        yield from _unconditional_calls(e.values[0])
        return
    if isinstance(e, ast.Call):
        yield e
    for ch in ast.iter_child_nodes(e):
        yield from _unconditional_calls(ch)


def _hoist(st: ast.stmt, inl: 'Inliner', cls) -> Optional[List[ast.stmt]]:
    if isinstance(st, ast.For):
        roots = [('iter', st.iter)]
    elif isinstance(st, (ast.Assign, ast.AugAssign, ast.Return, ast.Expr, ast.AnnAssign)) and \
            getattr(st, 'value', None) is not None:
        roots = [('value', st.value)]
    elif isinstance(st, (ast.If, ast.While)) and isinstance(st, ast.If):
        roots = [('test', st.test)]
    else:
        return None
    for fld, root in roots:
        for call in _unconditional_calls(root):
            if call is root and not isinstance(st, (ast.For, ast.If, ast.AugAssign)):
                continue   # the whole value: the statement-level case
            t = inl.target(call, cls)
            if t is None or t[0].is_gen:
                continue
            h, recv = t
            try:
                bind = inl.bind(h, call, recv)
                if inl.as_expr(h, bind) is not None:
                    continue
                tmp = ast.Name(id=f'{h.name.strip("_")}_result{inl.counter + 1}', ctx=ast.Store())
                new = inl.as_stmts(h, bind, tmp, 'assign')
            except CannotInline:
                continue
            inl.inlined.append(h.qual)
            load = ast.Name(id=tmp.id, ctx=ast.Load())

            class Swap(ast.NodeTransformer):
                def visit_Call(self, n):
                    if n is call:
                        return ast.copy_location(load, n)
                    return self.generic_visit(n)
            setattr(st, fld, Swap().visit(getattr(st, fld)))
            for s_ in new:
                ast.copy_location(s_, st) if not hasattr(s_, 'lineno') else None
                ast.fix_missing_locations(s_)
            return new + [st]
    return None


def inline_function(fn: ast.FunctionDef, cls: Optional[ast.ClassDef], inl: Inliner) -> bool:
    """in place; True when something was inlined"""
    changed = [False]
    inl.caller_names = {x.id for x in ast.walk(fn) if isinstance(x, ast.Name)} | \
        {a.arg for a in ast.walk(fn) if isinstance(a, ast.arg)}

    def block(stmts: List[ast.stmt]) -> List[ast.stmt]:
        out: List[ast.stmt] = []
        for st in stmts:
            if isinstance(st, (ast.FunctionDef, ast.AsyncFunctionDef, ast.ClassDef)):
                out.append(st)
                continue
            # nested blocks first
            for fld in ('body', 'orelse', 'finalbody'):
                sub = getattr(st, fld, None)
                if isinstance(sub, list) and sub and isinstance(sub[0], ast.stmt):
                    setattr(st, fld, block(sub))
            for hd in getattr(st, 'handlers', []) or []:
                hd.body = block(hd.body)
            # generator helper consumed by this for loop
            if isinstance(st, ast.For) and isinstance(st.iter, ast.Call):
                t = inl.target(st.iter, cls)
                if t is not None and t[0].is_gen:
                    try:
                        new = inl.gen_into_for(t[0], inl.bind(t[0], st.iter, t[1]), st)
                        inl.inlined.append(t[0].qual)
                        changed[0] = True
                        out += block(new)
                        continue
                    except CannotInline:
                        pass
            if isinstance(st, ast.Expr) and isinstance(st.value, ast.YieldFrom) and isinstance(st.value.value, ast.Call):
                t = inl.target(st.value.value, cls)
                if t is not None and t[0].is_gen:
                    try:
                        new = inl.gen_into_yield_from(t[0], inl.bind(t[0], st.value.value, t[1]))
                        inl.inlined.append(t[0].qual)
                        changed[0] = True
                        out += block(new)
                        continue
                    except CannotInline:
                        pass
            # statement-level: x = helper(..) / return helper(..) / helper(..)
            val = st.value if isinstance(st, (ast.Assign, ast.Return, ast.Expr, ast.AnnAssign)) else None
            if isinstance(val, ast.Call):
                t = inl.target(val, cls)
                if t is not None and not t[0].is_gen:
                    h, recv = t
                    try:
                        bind = inl.bind(h, val, recv)
                        if inl.as_expr(h, bind) is None:
                            if isinstance(st, ast.Assign) and len(st.targets) == 1:
                                new = inl.as_stmts(h, bind, st.targets[0], 'assign')
                            elif isinstance(st, ast.AnnAssign):
                                new = inl.as_stmts(h, bind, st.target, 'assign')
                            elif isinstance(st, ast.Return):
                                new = inl.as_stmts(h, bind, None, 'return')
                            elif isinstance(st, ast.Expr):
                                new = inl.as_stmts(h, bind, None, 'drop')
                            else:
                                raise CannotInline('context')
                            for s in new:
                                ast.copy_location(s, st) if not hasattr(s, 'lineno') else None
                            inl.inlined.append(h.qual)
                            changed[0] = True
                            out += block(new)
                            continue
                    except CannotInline:
                        pass
            # a helper call that is evaluated unconditionally as part of this statement but is neither its whole value
            # nor expressible as an expression: computed into a fresh local first (`for k, v in helper(..).items()`)
            hoisted = _hoist(st, inl, cls)
            if hoisted is not None:
                changed[0] = True
                out += block(hoisted)
                continue
            # expression-level inside the statement's own expressions
            rc = _ReplaceCalls(inl, cls)
            for key, e in list(_expr_fields(st)):
                new_e = rc.visit(e)
                if new_e is not e:
                    if isinstance(key, tuple):
                        getattr(st, key[0])[key[1]] = new_e
                    else:
                        setattr(st, key, new_e)
            if rc.changed:
                changed[0] = True
            out.append(st)
        return out
    fn.body = block(fn.body)
    return changed[0]


def normalise_module(tree: ast.Module, modname: str) -> Dict[str, List[str]]:
    """in place; returns {function qualname: [helpers read through / 'unrolled']} for the record"""
    inv = inventory().get(modname)
    funcs = module_functions(tree)
    if inv is None:
        inv = {}
    new = {q for q in funcs if q not in inv}
    changed = {q for q, (n, c) in funcs.items() if q in new or inv.get(q) != body_digest(n)}
    if not changed:
        return {}
    helpers = {q: _Helper(q, n, c) for q, (n, c) in funcs.items()
               if q in new and n.name.startswith('_') and not (n.name.startswith('__') and n.name.endswith('__'))}
    record: Dict[str, List[str]] = {}
    from .unroll import unroll_in_place
    inl = Inliner(helpers)
    # literal tables bound once at module level (a dispatch table moved out of the function)
    mod_tables: Dict[str, ast.AST] = {}
    counts: Dict[str, int] = {}
    for st in tree.body:
        for t in (st.targets if isinstance(st, ast.Assign) else [st.target] if isinstance(st, ast.AnnAssign) else []):
            if isinstance(t, ast.Name):
                counts[t.id] = counts.get(t.id, 0) + 1
                if getattr(st, 'value', None) is not None and isinstance(st.value, (ast.Tuple, ast.List)):
                    mod_tables[t.id] = st.value
    mod_tables = {k: v for k, v in mod_tables.items() if counts.get(k) == 1 and k not in inv.get('__tables__', {})}
    for _pass in range(4):
        any_change = False
        for q in sorted(changed):
            fn, cls = funcs[q]
            try:
                before = len(inl.inlined)
                if unroll_in_place(fn, extra_tables=mod_tables):
                    record.setdefault(q, []).append('table loop written out')
                    any_change = True
                # functions defined inside this function are helpers of this function
                local = {}
                for st in fn.body:
                    if isinstance(st, ast.FunctionDef) and not st.decorator_list:
                        local[st.name] = _Helper(st.name, st, None)
                inl.helpers = dict(helpers, **local)
                if inl.helpers and inline_function(fn, cls, inl):
                    any_change = True
                    record.setdefault(q, []).extend(sorted(set(inl.inlined[before:])))
                fn2 = _BetaArgs().visit(fn)
                ast.fix_missing_locations(fn2)
            except Exception as e:  # a normalisation that fails leaves the function as it is
                record.setdefault(q, []).append(f'normalisation skipped: {type(e).__name__}: {e}')
        if not any_change:
            break
    return record


def write_inventory(root: str, path: str = _INV_PATH) -> int:
    pkg = os.path.join(root, 'src', 'peptacular')
    inv: Dict[str, Dict[str, str]] = {}
    n = 0
    for dirpath, dirnames, filenames in sorted(os.walk(pkg)):
        dirnames[:] = sorted(d for d in dirnames if d != '__pycache__')
        for fnm in sorted(filenames):
            if not fnm.endswith('.py'):
                continue
            p = os.path.join(dirpath, fnm)
            modrel = os.path.relpath(p, os.path.join(root, 'src'))[:-3]
            parts = modrel.split(os.sep)
            if parts[-1] == '__init__':
                parts = parts[:-1]
            import warnings
            with warnings.catch_warnings():
                warnings.simplefilter('ignore')
                tree = ast.parse(open(p, encoding='utf-8').read())
            inv['.'.join(parts)] = {q: body_digest(nd) for q, (nd, c) in module_functions(tree).items()}
            n += len(inv['.'.join(parts)])
    json.dump(inv, open(path, 'w'), indent=0, sort_keys=True)
    return n
