"""
normalise: read new helpers through.

The rules of this checker were written against an inventory of the functions of the package (sa/inventory.json: every
function of the reference tree with a digest of its body).  When a later tree splits one of those functions into
helpers, drives it from a table or feeds it from a generator, the *computation* is the same but the anchor function no
longer contains it.  This module rewrites -- in memory, on the parsed module, nothing is executed -- every function
whose body differs from the inventory:

  * calls of helpers that are not in the inventory (new private functions / methods of the same module) are inlined:
    a helper made of assignments, guard clauses and returns becomes an expression (conditional expressions for the
    guards); a helper with statements is inlined at statement level where its result is assigned, returned or dropped;
    a generator helper consumed by `for x in helper(..)` or `yield from helper(..)` is inlined with every `yield e`
    replaced by `x = e; <loop body>`;
  * loops over literal tables are written out row by row (sa/unroll.py), parameterless lambdas are applied, a lambda
    passed as an argument is applied where the parameter is called, `t.__getitem__(k)` is read as `t[k]`.

All of these preserve what is computed (evaluation order of pure argument expressions aside), so rules see the
computation where they expect it.  Functions whose digest equals the inventory are not touched: on the reference tree
the analysis is exactly what it was.  Helper definitions stay in the module (the effect and raise rules still see them).
A helper that cannot be inlined by these means is left as a call -- the rules then see a call they may not understand
and fail closed, as before.
"""
import ast
import copy
import hashlib
import json
import os
from typing import Dict, List, Optional, Tuple

_INV_PATH = os.path.join(os.path.dirname(os.path.abspath(__file__)), 'inventory.json')
_inventory_cache = None


def inventory() -> Dict[str, Dict[str, str]]:
    global _inventory_cache
    if _inventory_cache is None:
        try:
            _inventory_cache = json.load(open(_INV_PATH))
        except Exception:
            _inventory_cache = {}
    return _inventory_cache


def body_digest(fn: ast.AST) -> str:
    body = list(fn.body)
    if body and isinstance(body[0], ast.Expr) and isinstance(body[0].value, ast.Constant) and \
            isinstance(body[0].value.value, str):
        body = body[1:]
    h = hashlib.sha256()
    h.update(ast.dump(fn.args).encode())
    for st in body:
        h.update(ast.dump(st).encode())
    return h.hexdigest()[:16]


def module_functions(tree: ast.Module) -> Dict[str, Tuple[ast.AST, Optional[ast.ClassDef]]]:
    """qualname -> (function node, enclosing class) for module-level functions and methods (not nested functions)"""
    out = {}
    for n in tree.body:
        if isinstance(n, (ast.FunctionDef, ast.AsyncFunctionDef)):
            out[n.name] = (n, None)
        elif isinstance(n, ast.ClassDef):
            for m in n.body:
                if isinstance(m, (ast.FunctionDef, ast.AsyncFunctionDef)):
                    out[f'{n.name}.{m.name}'] = (m, n)
    return out


class CannotInline(Exception):
    pass


# ---------------------------------------------------------------------------------------------------------------------
def _strip_doc(body):
    if body and isinstance(body[0], ast.Expr) and isinstance(body[0].value, ast.Constant) and \
            isinstance(body[0].value.value, str):
        return body[1:]
    return list(body)


def _is_generator(fn) -> bool:
    for n in ast.walk(fn):
        if n is fn:
            continue
        if isinstance(n, (ast.Yield, ast.YieldFrom)):
            # not inside a nested def / lambda
            return True
    return False


def _own_nodes(fn):
    stack = list(fn.body)
    while stack:
        n = stack.pop()
        yield n
        for ch in ast.iter_child_nodes(n):
            if isinstance(ch, (ast.FunctionDef, ast.AsyncFunctionDef, ast.ClassDef, ast.Lambda)):
                continue
            stack.append(ch)


def _stored_names(fn) -> set:
    out = set()
    for n in _own_nodes(fn):
        if isinstance(n, ast.Name) and isinstance(n.ctx, (ast.Store, ast.Del)):
            out.add(n.id)
        elif isinstance(n, ast.ExceptHandler) and n.name:
            out.add(n.name)
    # comprehension targets are scoped to the comprehension: leave them alone
    comp = set()
    for n in _own_nodes(fn):
        if isinstance(n, ast.comprehension):
            for x in ast.walk(n.target):
                if isinstance(x, ast.Name):
                    comp.add(x.id)
    return out - comp


class _Rename(ast.NodeTransformer):
    def __init__(self, mapping: Dict[str, str], subst: Dict[str, ast.AST]):
        self.mapping = mapping
        self.subst = subst

    def visit_Name(self, n):
        if n.id in self.mapping:
            return ast.copy_location(ast.Name(id=self.mapping[n.id], ctx=n.ctx), n)
        if isinstance(n.ctx, ast.Load) and n.id in self.subst:
            return ast.copy_location(copy.deepcopy(self.subst[n.id]), n)
        return n

    def visit_ExceptHandler(self, n):
        n = self.generic_visit(n)
        if n.name in self.mapping:
            n.name = self.mapping[n.name]
        return n

    def _scoped(self, n, bound):
        inner = _Rename({k: v for k, v in self.mapping.items() if k not in bound},
                        {k: v for k, v in self.subst.items() if k not in bound})
        return inner.generic_visit(n)

    def visit_Lambda(self, n):
        bound = {a.arg for a in n.args.args + n.args.kwonlyargs + n.args.posonlyargs}
        if n.args.vararg:
            bound.add(n.args.vararg.arg)
        if n.args.kwarg:
            bound.add(n.args.kwarg.arg)
        return self._scoped(n, bound)

    def visit_FunctionDef(self, n):
        bound = {a.arg for a in n.args.args + n.args.kwonlyargs + n.args.posonlyargs}
        if n.name in self.mapping:
            n.name = self.mapping[n.name]
        return self._scoped(n, bound)

    def _comp(self, n):
        bound = {x.id for g in n.generators for x in ast.walk(g.target) if isinstance(x, ast.Name)}
        # the first iterable is evaluated in the enclosing scope
        first = self.visit(n.generators[0].iter)
        out = self._scoped(n, bound)
        out.generators[0].iter = first
        return out

    visit_ListComp = visit_SetComp = visit_GeneratorExp = visit_DictComp = _comp


class _Alpha(ast.NodeTransformer):
    """comprehension variables (and lambda parameters) of a helper that carry the name of something the caller's
    arguments mention are given a new name, so that substituting the argument inside does not capture it"""

    def __init__(self, clash: set, suffix: str):
        self.clash = clash
        self.suffix = suffix
        self.did = False

    def _comp(self, n):
        n = self.generic_visit(n)
        bound = {x.id for g in n.generators for x in ast.walk(g.target) if isinstance(x, ast.Name)} & self.clash
        if not bound:
            return n
        self.did = True
        first = n.generators[0].iter          # enclosing scope: not renamed
        n.generators[0].iter = ast.Constant(value=None)
        n = _Rename({b: b + self.suffix for b in bound}, {}).generic_visit(n)
        n.generators[0].iter = first
        return n

    visit_ListComp = visit_SetComp = visit_GeneratorExp = visit_DictComp = _comp

    def visit_Lambda(self, n):
        n = self.generic_visit(n)
        bound = {a.arg for a in n.args.args + n.args.kwonlyargs + n.args.posonlyargs} & self.clash
        if not bound:
            return n
        self.did = True
        for a in n.args.args + n.args.kwonlyargs + n.args.posonlyargs:
            if a.arg in bound:
                a.arg = a.arg + self.suffix
        n.body = _Rename({b: b + self.suffix for b in bound}, {}).visit(n.body)
        return n


class _Helper:
    def __init__(self, qual: str, node: ast.FunctionDef, cls: Optional[ast.ClassDef]):
        self.qual = qual
        self.node = node
        self.cls = cls
        self.name = node.name
        decos = [ast.unparse(d) for d in node.decorator_list]
        self.static = 'staticmethod' in decos
        self.classmethod = 'classmethod' in decos
        self.other_deco = [d for d in decos if d not in ('staticmethod', 'classmethod')]
        self.is_gen = _is_generator(node)


class Inliner:
    def __init__(self, helpers: Dict[str, _Helper]):
        self.helpers = helpers
        self.counter = 0
        self.inlined: List[str] = []
        self.caller_names: set = set()
        self.unique_methods: set = set()

    # -- which helper does a call mean ----------------------------------------------------------------------------------
    def target(self, call: ast.Call, cls: Optional[ast.ClassDef]) -> Optional[Tuple[_Helper, Optional[ast.AST]]]:
        f = call.func
        if isinstance(f, ast.Name) and f.id in self.helpers and self.helpers[f.id].cls is None:
            return self.helpers[f.id], None
        if isinstance(f, ast.Attribute) and isinstance(f.value, ast.Name) and cls is not None:
            q = f'{cls.name}.{f.attr}'
            if q in self.helpers and f.value.id in ('self', 'cls', cls.name):
                h = self.helpers[q]
                return h, (None if (h.static or f.value.id == cls.name and not h.classmethod) else f.value)
        if isinstance(f, ast.Attribute) and isinstance(f.value, ast.Name):
            # ClassName.helper(...) from outside the class (static helpers)
            for q, h in self.helpers.items():
                if h.cls is not None and q == f'{f.value.id}.{f.attr}' and h.static:
                    return h, None
            # <name>.helper(...): a new method whose name no other class of the module defines
            cands = [h for q, h in self.helpers.items() if h.cls is not None and h.name == f.attr and not h.static
                     and not h.classmethod]
            if len(cands) == 1 and f.attr in self.unique_methods:
                return cands[0], f.value
        return None

    def bind(self, h: _Helper, call: ast.Call, receiver: Optional[ast.AST]) -> Dict[str, ast.AST]:
        a = h.node.args
        if a.vararg or a.kwarg or h.other_deco:
            raise CannotInline('signature')
        params = [x.arg for x in a.posonlyargs + a.args]
        bind: Dict[str, ast.AST] = {}
        pos = list(call.args)
        if any(isinstance(x, ast.Starred) for x in pos) or any(k.arg is None for k in call.keywords):
            raise CannotInline('star arguments')
        if h.cls is not None and not h.static:
            if receiver is None:
                raise CannotInline('unbound method')
            bind[params[0]] = receiver
            params = params[1:]
        if len(pos) > len(params):
            raise CannotInline('arity')
        for p, v in zip(params, pos):
            bind[p] = v
        kwonly = [x.arg for x in a.kwonlyargs]
        for k in call.keywords:
            if k.arg not in params and k.arg not in kwonly:
                raise CannotInline('unknown keyword')
            bind[k.arg] = k.value
        allp = a.posonlyargs + a.args
        for p, d in zip(allp[len(allp) - len(a.defaults):], a.defaults):
            bind.setdefault(p.arg, d)
        for p, d in zip(a.kwonlyargs, a.kw_defaults):
            if d is not None:
                bind.setdefault(p.arg, d)
        for p in params + kwonly:
            if p not in bind:
                raise CannotInline('missing argument')
        return bind

    @staticmethod
    def _multi_used_impure(h: _Helper, bind) -> set:
        body = _strip_doc(h.node.body)
        return {p for p in bind if not _pure_simple(bind[p]) and _max_uses(body, p) > 1}

    def fresh(self, h: _Helper) -> str:
        self.counter += 1
        return f'__{h.name.strip("_")}{self.counter}'

    # -- a helper as an expression ----------------------------------------------------------------------------------
    def _uncaptured(self, h: _Helper, bind) -> _Helper:
        free = {y.id for a in bind.values() for y in ast.walk(a) if isinstance(y, ast.Name)}
        if not free:
            return h
        al = _Alpha(free, f'__{h.name.strip("_")}c')
        node = al.visit(copy.deepcopy(h.node))
        if not al.did:
            return h
        h2 = copy.copy(h)
        h2.node = node
        return h2

    def as_expr(self, h: _Helper, bind: Dict[str, ast.AST]) -> Optional[ast.AST]:
        if h.is_gen:
            return None
        h = self._uncaptured(h, bind)
        stored = _stored_names(h.node)
        if stored & set(bind):
            return None       # a parameter is re-bound in the helper: not a pure substitution
        if self._multi_used_impure(h, bind):
            return None       # an argument with effects / a fresh object would be evaluated more than once

        def expr_of(stmts, env) -> Optional[ast.AST]:
            if not stmts:
                return ast.Constant(value=None)
            st, rest = stmts[0], stmts[1:]
            if isinstance(st, ast.Return):
                return _Rename({}, env).visit(copy.deepcopy(st.value)) if st.value is not None else ast.Constant(value=None)
            if isinstance(st, ast.Assign) and len(st.targets) == 1 and isinstance(st.targets[0], ast.Name):
                nm = st.targets[0].id
                uses = _max_uses(rest, nm)
                if uses > 1 and not _pure_simple(st.value):
                    return None      # a fresh object / a call used twice: substituting it would evaluate it twice
                env2 = dict(env)
                env2[nm] = _Rename({}, env).visit(copy.deepcopy(st.value))
                return expr_of(rest, env2)
            if isinstance(st, ast.If):
                a = expr_of(list(st.body), env)
                if a is None or not _always_returns(st.body):
                    return None
                b = expr_of(list(st.orelse) + rest, env) if not (st.orelse and _always_returns(st.orelse)) else \
                    expr_of(list(st.orelse), env)
                if b is None:
                    return None
                return ast.IfExp(test=_Rename({}, env).visit(copy.deepcopy(st.test)), body=a, orelse=b)
            if isinstance(st, ast.Pass):
                return expr_of(rest, env)
            return None
        # a local bound twice cannot be substituted
        body = _strip_doc(h.node.body)
        counts: Dict[str, int] = {}
        for n in _own_nodes(h.node):
            if isinstance(n, ast.Name) and isinstance(n.ctx, ast.Store):
                counts[n.id] = counts.get(n.id, 0) + 1
        if any(v > 1 for v in counts.values()):
            # allowed when the bindings sit in different branches only: keep it simple, refuse
            return None
        return expr_of(body, dict(bind))

    # -- a helper as statements ---------------------------------------------------------------------------------------
    def as_stmts(self, h: _Helper, bind: Dict[str, ast.AST], result: Optional[ast.AST], mode: str) -> List[ast.stmt]:
        """mode: 'assign' (result is the target), 'return', 'drop'"""
        if h.is_gen:
            raise CannotInline('generator')
        h = self._uncaptured(h, bind)
        sfx = self.fresh(h)
        stored = _stored_names(h.node)
        mapping = {n: n + sfx for n in stored if n in self.caller_names}
        self.caller_names |= {n for n in stored if n not in mapping}
        # a function defined inside the helper (a closure it returns): one name per reading, the same helper may be read
        # several times with different arguments
        for st_ in h.node.body:
            if isinstance(st_, ast.FunctionDef):
                mapping[st_.name] = st_.name + sfx
        # the helper builds its result in one local and returns it everywhere (`m = 0.0 ... return m`), and the caller
        # assigns the call to a plain name that the arguments do not mention: the local *is* the caller's variable
        fused = None
        if mode == 'assign' and isinstance(result, ast.Name):
            rets = [x for x in _own_nodes(h.node) if isinstance(x, ast.Return)]
            names = {x.value.id for x in rets if isinstance(x.value, ast.Name)}
            if rets and len(names) == 1 and all(isinstance(x.value, ast.Name) for x in rets):
                v = next(iter(names))
                arg_names = {y.id for a in bind.values() for y in ast.walk(a) if isinstance(y, ast.Name)}
                if v in stored and v not in bind and result.id not in arg_names:
                    mapping[v] = result.id
                    fused = result.id
        pre: List[ast.stmt] = []
        subst = {}
        stored = set(stored) | self._multi_used_impure(h, bind)
        for p, v in bind.items():
            if p in stored:
                mapping.setdefault(p, p + sfx)
                pre.append(ast.Assign(targets=[ast.Name(id=mapping[p], ctx=ast.Store())], value=copy.deepcopy(v)))
            else:
                subst[p] = v
        rn = _Rename(mapping, subst)
        body = [rn.visit(copy.deepcopy(s)) for s in _strip_doc(h.node.body)]

        def ret(e) -> List[ast.stmt]:
            e = e if e is not None else ast.Constant(value=None)
            if mode == 'return':
                return [ast.Return(value=e)]
            if mode == 'assign':
                if fused is not None and isinstance(e, ast.Name) and e.id == fused:
                    return []
                return [ast.Assign(targets=[copy.deepcopy(result)], value=e)]
            return [ast.Expr(value=e)] if not isinstance(e, ast.Constant) else []

        def has_return(nodes) -> bool:
            for s in nodes:
                for x in ast.walk(s):
                    if isinstance(x, ast.Return):
                        return True
            return False

        def tr(stmts) -> Tuple[List[ast.stmt], bool]:
            out: List[ast.stmt] = []
            for k, st in enumerate(stmts):
                if isinstance(st, ast.Return):
                    out += ret(st.value)
                    return out, True
                if isinstance(st, ast.Raise):
                    out.append(st)
                    return out, True
                if isinstance(st, ast.If):
                    b1, r1 = tr(list(st.body))
                    b2, r2 = tr(list(st.orelse))
                    if (not r1 and has_return(st.body)) or (not r2 and has_return(st.orelse)):
                        # a return on part of the paths of a branch: what follows the `if` is read at the end of each
                        # arm (so that every path of the arm either returns or runs it), for small helpers
                        rest_src = list(stmts[k + 1:])
                        if sum(1 for r_ in rest_src for _ in ast.walk(r_) if isinstance(_, ast.stmt)) > 12:
                            raise CannotInline('a return on part of the paths of a branch')
                        b1, r1 = tr(list(st.body) + copy.deepcopy(rest_src))
                        b2, r2 = tr(list(st.orelse) + copy.deepcopy(rest_src))
                        if (not r1 and has_return(b1)) or (not r2 and has_return(b2)):
                            raise CannotInline('a return on part of the paths of a branch')
                        out.append(ast.If(test=st.test, body=b1 or [ast.Pass()], orelse=b2))
                        return out, r1 and r2
                    if r1 and r2:
                        out.append(ast.If(test=st.test, body=b1 or [ast.Pass()], orelse=b2))
                        return out, True
                    if r1 or r2:
                        rest, rr = tr(list(stmts[k + 1:]))
                        if r1:
                            out.append(ast.If(test=st.test, body=b1 or [ast.Pass()], orelse=b2 + rest))
                        else:
                            out.append(ast.If(test=st.test, body=(b1 + rest) or [ast.Pass()], orelse=b2 or []))
                        return out, rr
                    out.append(ast.If(test=st.test, body=b1 or [ast.Pass()], orelse=b2))
                    continue
                if isinstance(st, (ast.For, ast.While)) and has_return([st]) and not st.orelse and mode != 'drop' and \
                        not any(isinstance(y, (ast.For, ast.While)) and has_return([y])
                                for b in st.body for y in ast.walk(b)):
                    # a search loop: `for x in it: if c: return e` ... `return d`  becomes
                    # `for x in it: if c: t = e; break` / `else: t = d`   (for-else runs only when nothing was found)
                    def in_loop(nodes):
                        res = []
                        for n_ in nodes:
                            if isinstance(n_, ast.Return):
                                res += ret(n_.value) + [ast.Break()]
                                return res
                            if isinstance(n_, ast.If):
                                n_ = copy.copy(n_)
                                n_.body = in_loop(list(n_.body)) or [ast.Pass()]
                                n_.orelse = in_loop(list(n_.orelse))
                            elif isinstance(n_, (ast.Try, ast.With)) and has_return([n_]):
                                raise CannotInline('return inside try / with inside a loop')
                            res.append(n_)
                        return res
                    st2 = copy.copy(st)
                    st2.body = in_loop(list(st.body))
                    rest, rr = tr(list(stmts[k + 1:]))
                    if not rr:
                        rest += ret(None)
                    st2.orelse = rest
                    out.append(st2)
                    return out, True
                if isinstance(st, ast.Try) and has_return([st]) and not st.finalbody and not st.orelse and \
                        k == len(stmts) - 1 and isinstance(result, ast.Name) and mode == 'assign':
                    # `try: return E / except X: raise Y`: the assignment of a plain name raises nothing of its own, so
                    # `try: T = E / except X: raise Y` is the same computation
                    b, r = tr(list(st.body))
                    hs = []
                    ok_ = r
                    for h_ in st.handlers:
                        hb, hr = tr(list(h_.body))
                        ok_ = ok_ and hr
                        h2 = copy.copy(h_)
                        h2.body = hb or [ast.Pass()]
                        hs.append(h2)
                    if not ok_:
                        raise CannotInline('a try statement that does not leave on every path')
                    out.append(ast.Try(body=b, handlers=hs, orelse=[], finalbody=[]))
                    return out, True
                if isinstance(st, (ast.For, ast.While, ast.Try, ast.With)) and has_return([st]):
                    raise CannotInline('return inside a loop / try / with')
                out.append(st)
            return out, False
        if mode == 'return':
            new, always = list(body), True     # returns stay returns
        else:
            new, always = tr(body)
        if not always and mode == 'assign':
            new += ret(None)
        out = pre + new
        for s in out:
            ast.fix_missing_locations(s)
        return out

    # -- a generator helper consumed by a for loop ------------------------------------------------------------------------
    def gen_into_for(self, h: _Helper, bind, loop: ast.For) -> List[ast.stmt]:
        if loop.orelse:
            raise CannotInline('for-else')
        if _own_break(loop.body):
            raise CannotInline('break in the consuming loop')
        def bind_target(e):
            t = loop.target
            if isinstance(t, ast.Tuple) and isinstance(e, ast.Tuple) and len(t.elts) == len(e.elts) and \
                    all(isinstance(x, ast.Name) for x in t.elts):
                lhs = {x.id for x in t.elts}
                if not any(isinstance(y, ast.Name) and y.id in lhs for v in e.elts for y in ast.walk(v)):
                    return [ast.Assign(targets=[copy.deepcopy(x)], value=v) for x, v in zip(t.elts, e.elts)]
            return [ast.Assign(targets=[copy.deepcopy(t)], value=e)]
        return self._gen_body(h, bind, lambda e: bind_target(e) + copy.deepcopy(loop.body),
                              lambda it: [ast.For(target=copy.deepcopy(loop.target), iter=it,
                                                  body=copy.deepcopy(loop.body), orelse=[])],
                              needs_loop=_own_continue(loop.body))

    def gen_into_yield_from(self, h: _Helper, bind) -> List[ast.stmt]:
        return self._gen_body(h, bind, lambda e: [ast.Expr(value=ast.Yield(value=e))],
                              lambda it: [ast.Expr(value=ast.YieldFrom(value=it))], needs_loop=False)

    def _gen_body(self, h, bind, on_yield, on_yield_from, needs_loop: bool) -> List[ast.stmt]:
        sfx = self.fresh(h)
        stored = _stored_names(h.node)
        mapping = {n: n + sfx for n in stored if n in self.caller_names or n in bind}
        self.caller_names |= {n for n in stored if n not in mapping}
        pre: List[ast.stmt] = []
        subst = {}
        stored = set(stored) | self._multi_used_impure(h, bind)
        for p, v in bind.items():
            if p in stored:
                mapping.setdefault(p, p + sfx)
                pre.append(ast.Assign(targets=[ast.Name(id=mapping[p], ctx=ast.Store())], value=copy.deepcopy(v)))
            else:
                subst[p] = v
        rn = _Rename(mapping, subst)
        body = [rn.visit(copy.deepcopy(s)) for s in _strip_doc(h.node.body)]

        def tr(stmts, in_loop: bool) -> List[ast.stmt]:
            out: List[ast.stmt] = []
            for k, st in enumerate(stmts):
                if isinstance(st, ast.Expr) and isinstance(st.value, ast.Yield):
                    if needs_loop and not in_loop:
                        raise CannotInline('continue in the consuming loop, yield outside a loop')
                    out += on_yield(st.value.value if st.value.value is not None else ast.Constant(value=None))
                elif isinstance(st, ast.Expr) and isinstance(st.value, ast.YieldFrom):
                    out += on_yield_from(st.value.value)
                elif isinstance(st, ast.Return):
                    if st.value is not None:
                        raise CannotInline('generator returns a value')
                    if k != len(stmts) - 1 or in_loop:
                        raise CannotInline('early return in a generator')
                    # a bare return at the tail of a branch: handled by the caller of this block (guard clause)
                    out.append(ast.Pass())
                    return out
                elif isinstance(st, ast.If):
                    b1 = tr(list(st.body), in_loop)
                    ends = bool(st.body) and isinstance(st.body[-1], ast.Return)
                    if ends and not in_loop:
                        rest = tr(list(st.orelse) + list(stmts[k + 1:]), in_loop)
                        out.append(ast.If(test=st.test, body=b1 or [ast.Pass()], orelse=rest))
                        return out
                    b2 = tr(list(st.orelse), in_loop)
                    out.append(ast.If(test=st.test, body=b1 or [ast.Pass()], orelse=b2))
                elif isinstance(st, (ast.For, ast.While)):
                    st2 = copy.copy(st)
                    st2.body = tr(list(st.body), True) or [ast.Pass()]
                    st2.orelse = tr(list(st.orelse), in_loop)
                    out.append(st2)
                elif isinstance(st, ast.With):
                    st2 = copy.copy(st)
                    st2.body = tr(list(st.body), in_loop) or [ast.Pass()]
                    out.append(st2)
                elif isinstance(st, ast.Try):
                    if any(isinstance(x, (ast.Yield, ast.YieldFrom)) for x in ast.walk(st)):
                        raise CannotInline('yield inside try')
                    out.append(st)
                else:
                    if any(isinstance(x, (ast.Yield, ast.YieldFrom)) for x in ast.walk(st)):
                        raise CannotInline('yield used as an expression')
                    out.append(st)
            return out
        out = pre + tr(body, False)
        for s in out:
            ast.fix_missing_locations(s)
        return out


def _max_uses(node, name: str) -> int:
    """how often `name` can be read on one evaluation: the arms of a conditional are alternatives, not a sum; anything
    under a loop, comprehension or lambda counts as many"""
    if isinstance(node, list):
        total = 0
        for k, st in enumerate(node):
            if isinstance(st, ast.If):
                rest = node[k + 1:]
                a = _max_uses(list(st.body), name) + (0 if _always_returns(st.body) else _max_uses(rest, name))
                b = _max_uses(list(st.orelse), name) + (0 if st.orelse and _always_returns(st.orelse) else
                                                         _max_uses(rest, name))
                return total + _max_uses(st.test, name) + max(a, b)
            total += _max_uses(st, name)
        return total
    if isinstance(node, ast.Name):
        return 1 if node.id == name and isinstance(node.ctx, ast.Load) else 0
    if isinstance(node, ast.IfExp):
        return _max_uses(node.test, name) + max(_max_uses(node.body, name), _max_uses(node.orelse, name))
    if isinstance(node, (ast.ListComp, ast.SetComp, ast.DictComp, ast.GeneratorExp)):
        # the first iterable is evaluated once, in the enclosing scope; everything else once per element
        first = node.generators[0].iter
        once = _max_uses(first, name)
        inner = sum(1 for x in ast.walk(node) if isinstance(x, ast.Name) and x.id == name and isinstance(x.ctx, ast.Load))
        inner -= sum(1 for x in ast.walk(first) if isinstance(x, ast.Name) and x.id == name and isinstance(x.ctx, ast.Load))
        return once + 2 * inner
    if isinstance(node, (ast.For, ast.While, ast.Lambda)):
        inner = sum(1 for x in ast.walk(node) if isinstance(x, ast.Name) and x.id == name and isinstance(x.ctx, ast.Load))
        return 2 * inner
    return sum(_max_uses(ch, name) for ch in ast.iter_child_nodes(node))


_PURE_CALLS = {'len', 'abs', 'min', 'max', 'isinstance', 'int', 'float', 'str', 'bool', 'round', 'sum'}


def _pure_simple(e: ast.AST) -> bool:
    """an expression that may be evaluated several times instead of once: no fresh container, no call except a few
    built-ins and `has_*` / `is_*` / `get` / `startswith` style queries"""
    if isinstance(e, ast.Lambda):
        return True          # a function value: making it twice is harmless
    for x in ast.walk(e):
        if isinstance(x, (ast.List, ast.Dict, ast.Set, ast.ListComp, ast.DictComp, ast.SetComp, ast.GeneratorExp,
                          ast.Yield, ast.YieldFrom, ast.Await, ast.NamedExpr)):
            return False
        if isinstance(x, ast.Call):
            f = x.func
            if isinstance(f, ast.Name) and (f.id in _PURE_CALLS or f.id in _BetaArgs.records):
                continue          # a built-in query, or the construction of a plain record
            if isinstance(f, ast.Attribute) and (f.attr.startswith(('has_', 'is_', 'count')) or f.attr in (
                    'get', 'startswith', 'endswith', 'lower', 'upper', 'strip', 'keys', 'values', 'items')):
                continue
            return False
    return True


def _always_returns(stmts) -> bool:
    if not stmts:
        return False
    last = stmts[-1]
    if isinstance(last, (ast.Return, ast.Raise)):
        return True
    if isinstance(last, ast.If):
        return _always_returns(last.body) and _always_returns(last.orelse)
    return False


def _own_break(body) -> bool:
    def rec(nodes):
        for s in nodes:
            if isinstance(s, ast.Break):
                return True
            if isinstance(s, (ast.For, ast.While, ast.FunctionDef)):
                continue
            for fld in ('body', 'orelse', 'finalbody'):
                sub = getattr(s, fld, None)
                if isinstance(sub, list) and rec([x for x in sub if isinstance(x, ast.stmt)]):
                    return True
            for hd in getattr(s, 'handlers', []) or []:
                if rec(hd.body):
                    return True
        return False
    return rec(body)


def _own_continue(body) -> bool:
    def rec(nodes):
        for s in nodes:
            if isinstance(s, ast.Continue):
                return True
            if isinstance(s, (ast.For, ast.While, ast.FunctionDef)):
                continue
            for fld in ('body', 'orelse', 'finalbody'):
                sub = getattr(s, fld, None)
                if isinstance(sub, list) and rec([x for x in sub if isinstance(x, ast.stmt)]):
                    return True
            for hd in getattr(s, 'handlers', []) or []:
                if rec(hd.body):
                    return True
        return False
    return rec(body)


# ---------------------------------------------------------------------------------------------------------------------
class _BetaArgs(ast.NodeTransformer):
    records: Dict[str, tuple] = {}
    """(lambda a, b: e)(x, y) -> e[a:=x, b:=y] ; t.__getitem__(k) -> t[k] ; `a if True else b` -> a ; `if False:` dropped
    (what substituting constant arguments leaves behind)"""

    def visit_IfExp(self, n):
        n = self.generic_visit(n)
        if isinstance(n.test, ast.Constant) and isinstance(n.test.value, bool):
            return n.body if n.test.value else n.orelse
        return n

    def visit_Expr(self, n):
        n = self.generic_visit(n)
        c = n.value
        # setattr(obj, 'name', v)  is  obj.name = v
        if isinstance(c, ast.Call) and isinstance(c.func, ast.Name) and c.func.id == 'setattr' and len(c.args) == 3 and \
                not c.keywords and isinstance(c.args[1], ast.Constant) and isinstance(c.args[1].value, str) and \
                c.args[1].value.isidentifier():
            new = ast.Assign(targets=[ast.Attribute(value=c.args[0], attr=c.args[1].value, ctx=ast.Store())], value=c.args[2])
            ast.copy_location(new, n)
            ast.fix_missing_locations(new)
            return new
        # d.update((k, v) for .. in ..)  is  for .. in ..: d[k] = v
        if isinstance(c, ast.Call) and isinstance(c.func, ast.Attribute) and c.func.attr == 'update' and \
                isinstance(c.func.value, ast.Name) and len(c.args) == 1 and not c.keywords and \
                isinstance(c.args[0], (ast.GeneratorExp, ast.ListComp)) and isinstance(c.args[0].elt, ast.Tuple) and \
                len(c.args[0].elt.elts) == 2:
            g = c.args[0]
            body: List[ast.stmt] = [ast.Assign(targets=[ast.Subscript(value=ast.Name(id=c.func.value.id, ctx=ast.Load()),
                                                                      slice=g.elt.elts[0], ctx=ast.Store())],
                                               value=g.elt.elts[1])]
            for gen in reversed(g.generators):
                for t in reversed(gen.ifs):
                    body = [ast.If(test=t, body=body, orelse=[])]
                body = [ast.For(target=gen.target, iter=gen.iter, body=body, orelse=[])]
            for b in body:
                ast.copy_location(b, n)
                ast.fix_missing_locations(b)
            return body
        return n

    def visit_Attribute(self, n):
        n = self.generic_visit(n)
        # Rec(a=e1, b=e2).a  is  e1   (records: the new NamedTuple / dataclass types of the module)
        v = n.value
        if isinstance(n.ctx, ast.Load) and isinstance(v, ast.Call) and isinstance(v.func, ast.Name) and \
                v.func.id in _BetaArgs.records and not any(isinstance(a, ast.Starred) for a in v.args) and \
                all(k.arg for k in v.keywords):
            flds, dflt = _BetaArgs.records[v.func.id]
            vals = dict(zip(flds, v.args))
            vals.update({k.arg: k.value for k in v.keywords})
            if n.attr in vals:
                return ast.copy_location(vals[n.attr], n)
            if n.attr in dflt:
                return ast.copy_location(copy.deepcopy(dflt[n.attr]), n)
        return n

    def visit_BoolOp(self, n):
        n = self.generic_visit(n)
        vals = []
        for v in n.values:     # a or (b or c)  is  a or b or c
            if isinstance(v, ast.BoolOp) and type(v.op) is type(n.op):
                vals += v.values
            else:
                vals.append(v)
        # a decided operand: `False and x` is False, `True and x` is x   (or: dually) -- only boolean constants, so
        # the value of the expression (not just its truth) is unchanged wherever it is used as a test
        is_and = isinstance(n.op, ast.And)
        kept = []
        for i, v in enumerate(vals):
            if isinstance(v, ast.Constant) and isinstance(v.value, bool):
                if v.value is (not is_and):      # False in and / True in or: decides, later operands never run
                    kept.append(v)
                    break
                if i < len(vals) - 1:
                    continue                     # True in and / False in or, not last: skipped
            kept.append(v)
        if len(kept) == 1:
            return kept[0]
        n.values = kept
        return n

    def visit_Compare(self, n):
        n = self.generic_visit(n)
        # <constant> is [not] None / <constant> ==/!= <constant>   (left behind by substituting a table row)
        if len(n.ops) == 1 and isinstance(n.ops[0], (ast.Is, ast.IsNot)) and \
                isinstance(n.left, (ast.Tuple, ast.List, ast.Dict, ast.Set, ast.Lambda)) and \
                isinstance(n.comparators[0], ast.Constant) and n.comparators[0].value is None and \
                (isinstance(n.left, ast.Lambda) or all(_pure_simple(e) for e in ast.iter_child_nodes(n.left)
                                                       if isinstance(e, ast.expr))):
            return ast.copy_location(ast.Constant(value=isinstance(n.ops[0], ast.IsNot)), n)
        if len(n.ops) == 1 and isinstance(n.left, ast.Constant) and isinstance(n.comparators[0], ast.Constant):
            a, b = n.left.value, n.comparators[0].value
            op = n.ops[0]
            simple = lambda v: v is None or isinstance(v, (str, bool, int))
            if simple(a) and simple(b):
                if isinstance(op, (ast.Is, ast.IsNot)) and (a is None or b is None):
                    r = (a is None) == (b is None)
                    return ast.copy_location(ast.Constant(value=r if isinstance(op, ast.Is) else not r), n)
                if isinstance(op, (ast.Eq, ast.NotEq)) and type(a) is type(b):
                    r = a == b
                    return ast.copy_location(ast.Constant(value=r if isinstance(op, ast.Eq) else not r), n)
        return n

    @staticmethod
    def _as_test(e) -> Optional[ast.AST]:
        """the test that stands for a boolean-valued expression used as a key (None: not known to be a bool)"""
        if isinstance(e, ast.Compare):
            return e
        if isinstance(e, ast.Constant) and isinstance(e.value, bool):
            return e
        if isinstance(e, ast.UnaryOp) and isinstance(e.op, ast.Not):
            return e
        if isinstance(e, ast.BoolOp) and all(_BetaArgs._as_test(v) is not None for v in e.values):
            return e
        if isinstance(e, ast.Call) and isinstance(e.func, ast.Name) and e.func.id == 'bool' and len(e.args) == 1 and \
                not e.keywords:
            return e.args[0]
        return None

    def visit_Subscript(self, n):
        n = self.generic_visit(n)
        # {True: A, False: B}[c]  is  A if c else B ;  {(False, True): f, ..}[(c1, c2)]  is the nested conditional
        d = n.value
        # (a, b, c)[1]  is  b   (elements that may be dropped unevaluated: names, constants, attributes, lambdas)
        if isinstance(n.ctx, ast.Load) and isinstance(d, (ast.Tuple, ast.List)) and isinstance(n.slice, ast.Constant) and \
                isinstance(n.slice.value, int) and not isinstance(n.slice.value, bool) and \
                -len(d.elts) <= n.slice.value < len(d.elts) and \
                not any(isinstance(e, ast.Starred) for e in d.elts) and all(_pure_simple(e) for e in d.elts):
            return ast.copy_location(d.elts[n.slice.value], n)
        # {'a': f, 'b': g}[k]  is  f if k == 'a' else g if k == 'b' else <KeyError>   (a dispatch table; k a plain name)
        if isinstance(n.ctx, ast.Load) and isinstance(d, ast.Dict) and 2 <= len(d.keys) <= 12 and \
                all(isinstance(k, ast.Constant) and isinstance(k.value, str) for k in d.keys) and \
                len({k.value for k in d.keys}) == len(d.keys) and isinstance(n.slice, (ast.Name, ast.Attribute)) and \
                _pure_simple(n.slice) and all(_pure_simple(v) for v in d.values):
            out = ast.Call(func=ast.Name(id='__no_such_key__', ctx=ast.Load()), args=[copy.deepcopy(n.slice)], keywords=[])
            for k, v in reversed(list(zip(d.keys, d.values))):
                out = ast.IfExp(test=ast.Compare(left=copy.deepcopy(n.slice), ops=[ast.Eq()], comparators=[k]),
                                body=v, orelse=out)
            return ast.copy_location(out, n)
        # (A if c else B)[k]  is  A[k] if c else B[k]   (k a plain name / constant / attribute: reading it twice is the same)
        if isinstance(n.ctx, ast.Load) and isinstance(d, ast.IfExp) and _pure_simple(n.slice):
            mk = lambda v: ast.Subscript(value=v, slice=copy.deepcopy(n.slice), ctx=ast.Load())
            return ast.copy_location(self.visit(ast.IfExp(test=d.test, body=mk(d.body), orelse=mk(d.orelse))), n)
        if not (isinstance(n.ctx, ast.Load) and isinstance(d, ast.Dict) and d.keys and all(k is not None for k in d.keys)):
            return n
        conds = list(n.slice.elts) if isinstance(n.slice, ast.Tuple) else [n.slice]
        tests = [self._as_test(c) for c in conds]
        if any(t is None for t in tests):
            return n
        table = {}
        for k, v in zip(d.keys, d.values):
            if isinstance(n.slice, ast.Tuple):
                if not (isinstance(k, ast.Tuple) and len(k.elts) == len(conds) and all(
                        isinstance(x, ast.Constant) and isinstance(x.value, bool) for x in k.elts)):
                    return n
                key = tuple(x.value for x in k.elts)
            else:
                if not (isinstance(k, ast.Constant) and isinstance(k.value, bool)):
                    return n
                key = (k.value,)
            if key in table:
                return n
            table[key] = v
        if len(table) != 2 ** len(conds):
            return n

        def pick(prefix):
            if len(prefix) == len(conds):
                return copy.deepcopy(table[tuple(prefix)])
            a, b = pick(prefix + [True]), pick(prefix + [False])
            if ast.dump(a) == ast.dump(b):
                return a
            return ast.IfExp(test=copy.deepcopy(tests[len(prefix)]), body=a, orelse=b)
        return ast.copy_location(self.visit(pick([])), n)

    def visit_BinOp(self, n):
        n = self.generic_visit(n)
        if isinstance(n.op, ast.Add) and isinstance(n.left, ast.Constant) and isinstance(n.right, ast.Constant) and \
                isinstance(n.left.value, str) and isinstance(n.right.value, str):
            return ast.copy_location(ast.Constant(value=n.left.value + n.right.value), n)
        return n

    def visit_JoinedStr(self, n):
        n = self.generic_visit(n)
        # f'pop_{"x"}' with nothing but constants inside
        parts = []
        for v in n.values:
            if isinstance(v, ast.Constant) and isinstance(v.value, str):
                parts.append(v.value)
            elif isinstance(v, ast.FormattedValue) and v.conversion == -1 and v.format_spec is None and \
                    isinstance(v.value, ast.Constant) and isinstance(v.value.value, str):
                parts.append(v.value.value)
            else:
                return n
        return ast.copy_location(ast.Constant(value=''.join(parts)), n)

    def _merge_comp(self, n):
        n = self.generic_visit(n)
        # [E(x) for x in ('a', 'b', 'c')]  is  [E('a'), E('b'), E('c')]   (same order of evaluation)
        if isinstance(n, ast.ListComp) and len(n.generators) == 1 and not n.generators[0].ifs and \
                isinstance(n.generators[0].iter, (ast.Tuple, ast.List)) and 0 < len(n.generators[0].iter.elts) <= 12 and \
                isinstance(n.generators[0].target, ast.Name) and \
                all(isinstance(e, ast.Constant) for e in n.generators[0].iter.elts):
            tv = n.generators[0].target.id
            elts = [self.visit(_Rename({}, {tv: e}).visit(copy.deepcopy(n.elt))) for e in n.generators[0].iter.elts]
            return ast.copy_location(ast.List(elts=elts, ctx=ast.Load()), n)
        # [E for x in (y for y in IT if C)]  is  [E for x in IT if C[y := x]]
        g0 = n.generators[0]
        inner = g0.iter
        if isinstance(inner, (ast.GeneratorExp, ast.ListComp)) and len(inner.generators) == 1 and \
                isinstance(inner.elt, ast.Name) and isinstance(inner.generators[0].target, ast.Name) and \
                inner.elt.id == inner.generators[0].target.id and isinstance(g0.target, ast.Name):
            ig = inner.generators[0]
            ren = _Rename({ig.target.id: g0.target.id}, {})
            g0.iter = ig.iter
            g0.ifs = [ren.visit(copy.deepcopy(t)) for t in ig.ifs] + list(g0.ifs)
        return n

    visit_ListComp = visit_SetComp = visit_GeneratorExp = visit_DictComp = _merge_comp

    def visit_UnaryOp(self, n):
        n = self.generic_visit(n)
        if isinstance(n.op, ast.Not) and isinstance(n.operand, ast.Constant) and isinstance(n.operand.value, bool):
            return ast.copy_location(ast.Constant(value=not n.operand.value), n)
        # not (a != b)  is  a == b   (is / in likewise)
        if isinstance(n.op, ast.Not) and isinstance(n.operand, ast.Compare) and len(n.operand.ops) == 1:
            inv = {ast.NotEq: ast.Eq, ast.Eq: ast.NotEq, ast.Is: ast.IsNot, ast.IsNot: ast.Is, ast.In: ast.NotIn,
                   ast.NotIn: ast.In}.get(type(n.operand.ops[0]))
            if inv is not None:
                return ast.copy_location(ast.Compare(left=n.operand.left, ops=[inv()],
                                                     comparators=n.operand.comparators), n)
        return n

    def visit_If(self, n):
        n = self.generic_visit(n)
        if isinstance(n.test, ast.Constant) and isinstance(n.test.value, bool):
            return (n.body if n.test.value else n.orelse) or [ast.copy_location(ast.Pass(), n)]
        return n

    def visit_Call(self, n):
        n = self.generic_visit(n)
        f = n.func
        # next((v for k, v in ((k1, v1), (k2, v2)) if X == k), D)  is  v1 if X == k1 else v2 if X == k2 else D
        if isinstance(f, ast.Name) and f.id == 'next' and 1 <= len(n.args) <= 2 and not n.keywords and \
                isinstance(n.args[0], ast.GeneratorExp) and len(n.args[0].generators) == 1:
            g = n.args[0].generators[0]
            rows = g.iter.elts if isinstance(g.iter, (ast.Tuple, ast.List)) else None
            if rows and len(g.ifs) == 1 and len(rows) <= 24 and len(n.args) == 2:
                names = [t.id for t in g.target.elts] if isinstance(g.target, ast.Tuple) and all(
                    isinstance(t, ast.Name) for t in g.target.elts) else [g.target.id] if isinstance(g.target, ast.Name) else None
                if names and all((isinstance(r, (ast.Tuple, ast.List)) and len(r.elts) == len(names))
                                 if isinstance(g.target, ast.Tuple) else True for r in rows):
                    out = n.args[1]
                    for r in reversed(rows):
                        env = dict(zip(names, r.elts)) if isinstance(g.target, ast.Tuple) else {names[0]: r}
                        test = _Rename({}, env).visit(copy.deepcopy(g.ifs[0]))
                        val = _Rename({}, env).visit(copy.deepcopy(n.args[0].elt))
                        out = ast.IfExp(test=test, body=val, orelse=out)
                    return ast.copy_location(out, n)
        # (f if c else g)(args)  is  f(args) if c else g(args)
        if isinstance(f, ast.IfExp) and not any(isinstance(a, ast.Starred) for a in n.args):
            mk = lambda fn_: fn_ if isinstance(fn_, ast.Constant) or (
                isinstance(fn_, ast.Call) and isinstance(fn_.func, ast.Name) and fn_.func.id == '__no_such_key__') else \
                ast.Call(func=fn_, args=copy.deepcopy(n.args), keywords=copy.deepcopy(n.keywords))
            return ast.copy_location(self.visit(ast.IfExp(test=f.test, body=mk(f.body), orelse=mk(f.orelse))), n)
        # all(P(x) for x in (a, b, c))  is  P(a) and P(b) and P(c)   (any: or) -- same short-circuit order
        if isinstance(f, ast.Name) and f.id in ('all', 'any') and len(n.args) == 1 and not n.keywords and \
                isinstance(n.args[0], (ast.GeneratorExp, ast.ListComp)) and len(n.args[0].generators) == 1:
            g = n.args[0].generators[0]
            if isinstance(g.iter, (ast.Tuple, ast.List)) and 0 < len(g.iter.elts) <= 24 and not g.ifs and \
                    isinstance(g.target, ast.Name) and not any(isinstance(e, ast.Starred) for e in g.iter.elts):
                vals = [_Rename({}, {g.target.id: e}).visit(copy.deepcopy(n.args[0].elt)) for e in g.iter.elts]
                if len(vals) == 1:
                    return ast.copy_location(ast.Call(func=ast.Name(id='bool', ctx=ast.Load()), args=vals, keywords=[]), n)
                return ast.copy_location(ast.BoolOp(op=ast.And() if f.id == 'all' else ast.Or(), values=vals), n)
        # f(*(a, b, c))  is  f(a, b, c)
        if any(isinstance(a, ast.Starred) and isinstance(a.value, (ast.Tuple, ast.List)) for a in n.args):
            flat = []
            for a in n.args:
                if isinstance(a, ast.Starred) and isinstance(a.value, (ast.Tuple, ast.List)) and \
                        not any(isinstance(e, ast.Starred) for e in a.value.elts):
                    flat += a.value.elts
                else:
                    flat.append(a)
            n.args = flat
        # itertools.starmap(f, IT)  is  (f(*row) for row in IT)
        sm = f.id if isinstance(f, ast.Name) else f.attr if isinstance(f, ast.Attribute) else None
        if sm is not None and sm.lstrip('_') == 'starmap' and len(n.args) == 2 and not n.keywords and \
                _pure_simple(n.args[0]):
            row = ast.Name(id=f'row{abs(hash(ast.dump(n))) % 9973}', ctx=ast.Load())
            return ast.copy_location(ast.GeneratorExp(
                elt=ast.Call(func=n.args[0], args=[ast.Starred(value=row, ctx=ast.Load())], keywords=[]),
                generators=[ast.comprehension(target=ast.Name(id=row.id, ctx=ast.Store()), iter=n.args[1], ifs=[],
                                              is_async=0)]), n)
        # operator.methodcaller('name', *a)(obj) is obj.name(*a) ; attrgetter('name')(obj) is obj.name ; itemgetter(k)(obj)
        # is obj[k]
        if isinstance(f, ast.Call) and len(n.args) == 1 and not n.keywords and \
                not isinstance(n.args[0], ast.Starred) and f.args and isinstance(f.args[0], ast.Constant):
            fname = f.func.id if isinstance(f.func, ast.Name) else f.func.attr if isinstance(f.func, ast.Attribute) and \
                isinstance(f.func.value, ast.Name) and f.func.value.id == 'operator' else None
            k = f.args[0].value
            fname = fname.lstrip('_') if fname else fname     # `from operator import methodcaller as _methodcaller`
            if fname == 'methodcaller' and isinstance(k, str) and k.isidentifier():
                return ast.copy_location(ast.Call(func=ast.Attribute(value=n.args[0], attr=k, ctx=ast.Load()),
                                                  args=f.args[1:], keywords=f.keywords), n)
            if fname == 'attrgetter' and isinstance(k, str) and k.isidentifier() and len(f.args) == 1 and not f.keywords:
                return ast.copy_location(ast.Attribute(value=n.args[0], attr=k, ctx=ast.Load()), n)
            if fname == 'itemgetter' and len(f.args) == 1 and not f.keywords:
                return ast.copy_location(ast.Subscript(value=n.args[0], slice=f.args[0], ctx=ast.Load()), n)
        # getattr(obj, 'name')  is  obj.name
        if isinstance(f, ast.Name) and f.id == 'getattr' and len(n.args) == 2 and not n.keywords and \
                isinstance(n.args[1], ast.Constant) and isinstance(n.args[1].value, str) and n.args[1].value.isidentifier():
            return ast.copy_location(ast.Attribute(value=n.args[0], attr=n.args[1].value, ctx=ast.Load()), n)
        if isinstance(f, ast.Lambda) and not n.keywords and not f.args.kwarg and not f.args.kwonlyargs and \
                not any(isinstance(a, ast.Starred) for a in n.args):
            used = {x.id for x in ast.walk(f.body) if isinstance(x, ast.Name)}
            if f.args.vararg is None and len(f.args.args) == len(n.args) or \
                    (f.args.vararg is not None and f.args.vararg.arg not in used and len(f.args.args) <= len(n.args)):
                env = {p.arg: a for p, a in zip(f.args.args, n.args)}
                return ast.copy_location(_Rename({}, env).visit(copy.deepcopy(f.body)), n)
        if isinstance(f, ast.Attribute) and f.attr == '__getitem__' and len(n.args) == 1 and not n.keywords:
            return ast.copy_location(ast.Subscript(value=f.value, slice=n.args[0], ctx=ast.Load()), n)
        return n


def _expr_fields(st: ast.stmt):
    """the expressions of a statement that are evaluated as part of the statement itself (not its nested blocks)"""
    for name, val in ast.iter_fields(st):
        if name in ('body', 'orelse', 'finalbody', 'handlers'):
            continue
        if isinstance(val, ast.AST):
            yield name, val
        elif isinstance(val, list):
            for i, v in enumerate(val):
                if isinstance(v, ast.AST):
                    yield (name, i), v


class _ReplaceCalls(ast.NodeTransformer):
    def __init__(self, inl: Inliner, cls):
        self.inl = inl
        self.cls = cls
        self.changed = False

    def visit_Lambda(self, n):
        return n

    def visit_Call(self, n):
        n = self.generic_visit(n)
        t = self.inl.target(n, self.cls)
        if t is None:
            return n
        h, recv = t
        try:
            bind = self.inl.bind(h, n, recv)
            e = self.inl.as_expr(h, bind)
        except CannotInline:
            return n
        if e is None:
            return n
        self.changed = True
        self.inl.inlined.append(h.qual)
        return ast.copy_location(e, n)


def _unconditional_calls(e: ast.AST):
    """calls inside e that are evaluated whenever e is (not under a lambda, a comprehension, the arms of a conditional
    expression or the later operands of and/or)"""
    if isinstance(e, (ast.Lambda, ast.ListComp, ast.SetComp, ast.DictComp, ast.GeneratorExp)):
        if not isinstance(e, ast.Lambda) and e.generators:
            yield from _unconditional_calls(e.generators[0].iter)
        return
    if isinstance(e, ast.IfExp):
        yield from _unconditional_calls(e.test)
        return
    if isinstance(e, ast.BoolOp):
        yield from _unconditional_calls(e.values[0])
        return
    if isinstance(e, ast.Call):
        yield e
    for ch in ast.iter_child_nodes(e):
        yield from _unconditional_calls(ch)


def _hoist(st: ast.stmt, inl: 'Inliner', cls) -> Optional[List[ast.stmt]]:
    if isinstance(st, ast.For):
        roots = [('iter', st.iter)]
    elif isinstance(st, (ast.Assign, ast.AugAssign, ast.Return, ast.Expr, ast.AnnAssign)) and \
            getattr(st, 'value', None) is not None:
        roots = [('value', st.value)]
    elif isinstance(st, (ast.If, ast.While)) and isinstance(st, ast.If):
        roots = [('test', st.test)]
    else:
        return None
    for fld, root in roots:
        for call in _unconditional_calls(root):
            if call is root and not isinstance(st, (ast.For, ast.If, ast.AugAssign)):
                continue   # the whole value: the statement-level case
            t = inl.target(call, cls)
            if t is None or t[0].is_gen:
                continue
            h, recv = t
            try:
                bind = inl.bind(h, call, recv)
                if inl.as_expr(h, bind) is not None:
                    continue
                tmp = ast.Name(id=f'{h.name.strip("_")}_result{inl.counter + 1}', ctx=ast.Store())
                new = inl.as_stmts(h, bind, tmp, 'assign')
            except CannotInline:
                continue
            inl.inlined.append(h.qual)
            load = ast.Name(id=tmp.id, ctx=ast.Load())

            class Swap(ast.NodeTransformer):
                def visit_Call(self, n):
                    if n is call:
                        return ast.copy_location(load, n)
                    return self.generic_visit(n)
            setattr(st, fld, Swap().visit(getattr(st, fld)))
            for s_ in new:
                ast.copy_location(s_, st) if not hasattr(s_, 'lineno') else None
                ast.fix_missing_locations(s_)
            return new + [st]
    return None


def inline_function(fn: ast.FunctionDef, cls: Optional[ast.ClassDef], inl: Inliner) -> bool:
    """in place; True when something was inlined"""
    changed = [False]
    inl.caller_names = {x.id for x in ast.walk(fn) if isinstance(x, ast.Name)} | \
        {a.arg for a in ast.walk(fn) if isinstance(a, ast.arg)}

    def block(stmts: List[ast.stmt]) -> List[ast.stmt]:
        out: List[ast.stmt] = []
        for st in stmts:
            if isinstance(st, (ast.FunctionDef, ast.AsyncFunctionDef, ast.ClassDef)):
                out.append(st)
                continue
            # nested blocks first
            for fld in ('body', 'orelse', 'finalbody'):
                sub = getattr(st, fld, None)
                if isinstance(sub, list) and sub and isinstance(sub[0], ast.stmt):
                    setattr(st, fld, block(sub))
            for hd in getattr(st, 'handlers', []) or []:
                hd.body = block(hd.body)
            # SEP.join(gen_helper(..)) as the whole value of an assignment / return: the tokens collected by a loop
            jv = getattr(st, 'value', None) if isinstance(st, (ast.Assign, ast.Return)) else None
            if isinstance(jv, ast.Call) and isinstance(jv.func, ast.Attribute) and jv.func.attr == 'join' and \
                    isinstance(jv.func.value, ast.Constant) and isinstance(jv.func.value.value, str) and \
                    len(jv.args) == 1 and not jv.keywords and isinstance(jv.args[0], ast.Call) and \
                    (not isinstance(st, ast.Assign) or (len(st.targets) == 1 and isinstance(st.targets[0], ast.Name))):
                t = inl.target(jv.args[0], cls)
                fnm_ = jv.args[0].func.attr if isinstance(jv.args[0].func, ast.Attribute) else \
                    jv.args[0].func.id if isinstance(jv.args[0].func, ast.Name) else ''
                chained = fnm_ in ('from_iterable', 'chain') and any(
                    isinstance(y, ast.Call) and inl.target(y, cls) is not None for y in ast.walk(jv.args[0]))
                if (t is not None and t[0].is_gen) or chained:
                    inl.counter += 1
                    acc = f'tokens{inl.counter}'
                    tok = f'token{inl.counter}'
                    new = [ast.Assign(targets=[ast.Name(id=acc, ctx=ast.Store())], value=ast.List(elts=[], ctx=ast.Load())),
                           ast.For(target=ast.Name(id=tok, ctx=ast.Store()), iter=jv.args[0],
                                   body=[ast.Expr(value=ast.Call(func=ast.Attribute(value=ast.Name(id=acc, ctx=ast.Load()),
                                                                                    attr='append', ctx=ast.Load()),
                                                                 args=[ast.Name(id=tok, ctx=ast.Load())], keywords=[]))],
                                   orelse=[])]
                    joined = ast.Call(func=jv.func, args=[ast.Name(id=acc, ctx=ast.Load())], keywords=[])
                    new.append(ast.Return(value=joined) if isinstance(st, ast.Return) else
                               ast.Assign(targets=st.targets, value=joined))
                    for s_ in new:
                        ast.copy_location(s_, st)
                        ast.fix_missing_locations(s_)
                    changed[0] = True
                    out += block(new)
                    continue
            # a comprehension over a generator helper, as the whole value of an assignment / return: written as a loop
            # (which the next case then reads through)
            comp = st.value if isinstance(st, (ast.Assign, ast.Return)) and isinstance(
                getattr(st, 'value', None), (ast.DictComp, ast.ListComp, ast.SetComp)) else None
            if comp is not None and len(comp.generators) == 1 and isinstance(comp.generators[0].iter, ast.Call) and \
                    (not isinstance(st, ast.Assign) or (len(st.targets) == 1 and isinstance(st.targets[0], ast.Name))):
                t = inl.target(comp.generators[0].iter, cls)
                if t is not None and t[0].is_gen:
                    g = comp.generators[0]
                    acc = st.targets[0].id if isinstance(st, ast.Assign) else f'result{inl.counter + 1}'
                    used_in_comp = {x.id for x in ast.walk(comp) if isinstance(x, ast.Name)}
                    if acc not in used_in_comp:
                        if isinstance(comp, ast.DictComp):
                            init = ast.Dict(keys=[], values=[])
                            store: ast.stmt = ast.Assign(targets=[ast.Subscript(value=ast.Name(id=acc, ctx=ast.Load()),
                                                                                slice=comp.key, ctx=ast.Store())],
                                                         value=comp.value)
                        elif isinstance(comp, ast.ListComp):
                            init = ast.List(elts=[], ctx=ast.Load())
                            store = ast.Expr(value=ast.Call(func=ast.Attribute(value=ast.Name(id=acc, ctx=ast.Load()),
                                                                               attr='append', ctx=ast.Load()),
                                                            args=[comp.elt], keywords=[]))
                        else:
                            init = ast.Call(func=ast.Name(id='set', ctx=ast.Load()), args=[], keywords=[])
                            store = ast.Expr(value=ast.Call(func=ast.Attribute(value=ast.Name(id=acc, ctx=ast.Load()),
                                                                               attr='add', ctx=ast.Load()),
                                                            args=[comp.elt], keywords=[]))
                        body_: List[ast.stmt] = [store]
                        for tst in reversed(g.ifs):
                            body_ = [ast.If(test=tst, body=body_, orelse=[])]
                        new = [ast.Assign(targets=[ast.Name(id=acc, ctx=ast.Store())], value=init),
                               ast.For(target=g.target, iter=g.iter, body=body_, orelse=[])]
                        if isinstance(st, ast.Return):
                            new.append(ast.Return(value=ast.Name(id=acc, ctx=ast.Load())))
                        for s_ in new:
                            ast.copy_location(s_, st)
                            ast.fix_missing_locations(s_)
                        changed[0] = True
                        out += block(new)
                        continue
            # generator helper consumed by this for loop
            if isinstance(st, ast.For) and isinstance(st.iter, ast.Call):
                t = inl.target(st.iter, cls)
                if t is not None and t[0].is_gen:
                    try:
                        new = inl.gen_into_for(t[0], inl.bind(t[0], st.iter, t[1]), st)
                        inl.inlined.append(t[0].qual)
                        changed[0] = True
                        out += block(new)
                        continue
                    except CannotInline:
                        pass
            if isinstance(st, ast.Expr) and isinstance(st.value, ast.YieldFrom) and isinstance(st.value.value, ast.Call):
                t = inl.target(st.value.value, cls)
                if t is not None and t[0].is_gen:
                    try:
                        new = inl.gen_into_yield_from(t[0], inl.bind(t[0], st.value.value, t[1]))
                        inl.inlined.append(t[0].qual)
                        changed[0] = True
                        out += block(new)
                        continue
                    except CannotInline:
                        pass
            # statement-level: x = helper(..) / return helper(..) / helper(..)
            val = st.value if isinstance(st, (ast.Assign, ast.Return, ast.Expr, ast.AnnAssign)) else None
            if isinstance(val, ast.Call):
                t = inl.target(val, cls)
                if t is not None and not t[0].is_gen:
                    h, recv = t
                    try:
                        bind = inl.bind(h, val, recv)
                        if inl.as_expr(h, bind) is None:
                            if isinstance(st, ast.Assign) and len(st.targets) == 1:
                                new = inl.as_stmts(h, bind, st.targets[0], 'assign')
                            elif isinstance(st, ast.AnnAssign):
                                new = inl.as_stmts(h, bind, st.target, 'assign')
                            elif isinstance(st, ast.Return):
                                new = inl.as_stmts(h, bind, None, 'return')
                            elif isinstance(st, ast.Expr):
                                new = inl.as_stmts(h, bind, None, 'drop')
                            else:
                                raise CannotInline('context')
                            for s in new:
                                ast.copy_location(s, st) if not hasattr(s, 'lineno') else None
                            inl.inlined.append(h.qual)
                            changed[0] = True
                            out += block(new)
                            continue
                    except CannotInline:
                        pass
            # a helper call that is evaluated unconditionally as part of this statement but is neither its whole value
            # nor expressible as an expression: computed into a fresh local first (`for k, v in helper(..).items()`)
            hoisted = _hoist(st, inl, cls)
            if hoisted is not None:
                changed[0] = True
                out += block(hoisted)
                continue
            # expression-level inside the statement's own expressions
            rc = _ReplaceCalls(inl, cls)
            for key, e in list(_expr_fields(st)):
                new_e = rc.visit(e)
                if new_e is not e:
                    if isinstance(key, tuple):
                        getattr(st, key[0])[key[1]] = new_e
                    else:
                        setattr(st, key, new_e)
            if rc.changed:
                changed[0] = True
            out.append(st)
        return out
    fn.body = block(fn.body)
    return changed[0]


def fuse_staging_lists(fn: ast.FunctionDef) -> bool:
    """`L = []` ... `L.extend(E)` / `L.append(e)` ... `for v in L: BODY`  ==>  BODY run where the items are produced
    (`for v in E: BODY` / `v = e; BODY`).  Only when L is a local used for nothing else, the consumer follows the
    producers in the same block, and BODY neither leaves its loop nor binds a name the producers read: then the staged
    list only delays BODY, it does not change what BODY is run on."""
    changed = [False]

    def names_loaded(nodes) -> set:
        return {x.id for n in nodes for x in ast.walk(n) if isinstance(x, ast.Name) and isinstance(x.ctx, ast.Load)}

    def names_stored(nodes) -> set:
        return {x.id for n in nodes for x in ast.walk(n) if isinstance(x, ast.Name) and isinstance(x.ctx, ast.Store)}

    def block(stmts: List[ast.stmt]) -> List[ast.stmt]:
        for st in stmts:
            for fld in ('body', 'orelse', 'finalbody'):
                sub = getattr(st, fld, None)
                if isinstance(sub, list) and sub and isinstance(sub[0], ast.stmt):
                    setattr(st, fld, block(sub))
        k = 0
        while k < len(stmts):
            st = stmts[k]
            if isinstance(st, ast.Assign) and len(st.targets) == 1 and isinstance(st.targets[0], ast.Name) and \
                    isinstance(st.value, ast.List) and not st.value.elts:
                L = st.targets[0].id
                # the consumer: the next statement of this block that mentions L outside a producer call
                cons = None
                for j in range(k + 1, len(stmts)):
                    s2 = stmts[j]
                    if isinstance(s2, ast.For) and isinstance(s2.iter, ast.Name) and s2.iter.id == L and not s2.orelse:
                        cons = j
                        break
                if cons is not None:
                    region = stmts[k + 1:cons]
                    loop = stmts[cons]
                    uses = [x for n in region for x in ast.walk(n) if isinstance(x, ast.Name) and x.id == L]
                    prod = [x for n in region for x in ast.walk(n) if isinstance(x, ast.Call) and
                            isinstance(x.func, ast.Attribute) and isinstance(x.func.value, ast.Name) and
                            x.func.value.id == L and x.func.attr in ('extend', 'append') and len(x.args) == 1]
                    prod_stmts = [n for r in region for n in ast.walk(r) if isinstance(n, ast.Expr) and n.value in prod]
                    later = [x for n in stmts[cons + 1:] for x in ast.walk(n) if isinstance(x, ast.Name) and x.id == L]
                    inside = [x for x in ast.walk(loop) if isinstance(x, ast.Name) and x.id == L and x is not loop.iter]
                    body_exits = any(isinstance(x, (ast.Return, ast.Yield, ast.YieldFrom)) for b in loop.body
                                     for x in ast.walk(b)) or _own_break(loop.body) or _own_continue(loop.body)
                    clash = (names_stored(loop.body) | names_stored([loop.target])) & names_loaded(region)
                    if prod and len(uses) == len(prod) == len(prod_stmts) and not later and not inside and \
                            not body_exits and not clash:
                        def rewrite(nodes):
                            out = []
                            for n in nodes:
                                if isinstance(n, ast.Expr) and n.value in prod:
                                    c_ = n.value
                                    if c_.func.attr == 'extend':
                                        out.append(ast.copy_location(ast.For(
                                            target=copy.deepcopy(loop.target), iter=c_.args[0],
                                            body=copy.deepcopy(loop.body), orelse=[]), n))
                                    else:
                                        out.append(ast.copy_location(ast.Assign(
                                            targets=[copy.deepcopy(loop.target)], value=c_.args[0]), n))
                                        out += copy.deepcopy(loop.body)
                                    continue
                                for fld in ('body', 'orelse', 'finalbody'):
                                    sub = getattr(n, fld, None)
                                    if isinstance(sub, list) and sub and isinstance(sub[0], ast.stmt):
                                        setattr(n, fld, rewrite(sub) or [ast.Pass()])
                                out.append(n)
                            return out
                        new_region = rewrite(region)
                        stmts[k:cons + 1] = new_region
                        changed[0] = True
                        continue
            k += 1
        return stmts
    fn.body = block(fn.body)
    if changed[0]:
        ast.fix_missing_locations(fn)
    return changed[0]


def scalarise_records(fn: ast.FunctionDef, records) -> bool:
    """locals that only ever hold a record of a new NamedTuple / dataclass (or None) and are only used field by field
    are replaced by one local per field:
        r = Rec(a=e1, b=e2)  ==>  r__a = e1; r__b = e2          r.a  ==>  r__a          r.a = v  ==>  r__a = v
        r = r._replace(a=e)  ==>  r__a = e                       r = None / r is None  ==>  r__is_none = True / r__is_none
        r = other_record_local  ==>  r__a = other__a; r__b = other__b
    A record local that is used whole anywhere else (passed on, returned, stored) is left alone."""
    if not records:
        return False

    def rec_of(cname):
        v = records[cname]
        return (v[0], v[1]) if isinstance(v, tuple) else (v, {})
    binds: Dict[str, List[ast.stmt]] = {}
    for n in _own_nodes(fn):
        if isinstance(n, ast.Assign) and len(n.targets) == 1 and isinstance(n.targets[0], ast.Name):
            binds.setdefault(n.targets[0].id, []).append(n)
        elif isinstance(n, ast.AnnAssign) and isinstance(n.target, ast.Name) and n.value is not None:
            binds.setdefault(n.target.id, []).append(n)
    direct = {id(a.targets[0] if isinstance(a, ast.Assign) else a.target) for lst in binds.values() for a in lst}
    other_stores = {n.id for n in _own_nodes(fn) if isinstance(n, ast.Name) and isinstance(n.ctx, ast.Store)
                    and id(n) not in direct}
    params = {a.arg for a in ast.walk(fn.args) if isinstance(a, ast.arg)}

    def ctor_cls(v):
        if isinstance(v, ast.Call) and isinstance(v.func, ast.Name) and v.func.id in records and \
                not any(isinstance(x, ast.Starred) for x in v.args) and all(k.arg for k in v.keywords):
            return v.func.id
        return None
    cand: Dict[str, str] = {}
    for r, assigns in binds.items():
        if r in other_stores or r in params:
            continue
        cs = {ctor_cls(a.value) for a in assigns} - {None}
        if len(cs) == 1:
            cand[r] = next(iter(cs))
    # names that only ever receive another candidate (`open_interval = opened`) or None join their source's class
    grew = True
    while grew:
        grew = False
        for r, assigns in binds.items():
            if r in cand or r in other_stores or r in params:
                continue
            srcs = {cand.get(a.value.id) for a in assigns if isinstance(a.value, ast.Name)}
            if srcs and None not in srcs and len(srcs) == 1 and all(
                    isinstance(a.value, ast.Name) or (isinstance(a.value, ast.Constant) and a.value.value is None)
                    for a in assigns):
                cand[r] = next(iter(srcs))
                grew = True
    if not cand:
        return False
    parents = {}
    for n in _own_nodes(fn):
        for ch in ast.iter_child_nodes(n):
            parents[id(ch)] = n
    for n in fn.body:
        parents.setdefault(id(n), fn)

    def valid(r) -> bool:
        cls = cand[r]
        fields, _d = rec_of(cls)
        for a in binds[r]:
            v = a.value
            if ctor_cls(v) == cls:
                continue
            if isinstance(v, ast.Call) and isinstance(v.func, ast.Attribute) and v.func.attr == '_replace' and \
                    isinstance(v.func.value, ast.Name) and v.func.value.id == r and not v.args and \
                    all(k.arg in fields for k in v.keywords):
                continue
            if isinstance(v, ast.Constant) and v.value is None:
                continue
            if isinstance(v, ast.Name) and cand.get(v.id) == cls:
                continue
            return False
        for n in _own_nodes(fn):
            if isinstance(n, ast.Name) and n.id == r and isinstance(n.ctx, ast.Load):
                par = parents.get(id(n))
                if isinstance(par, ast.Attribute) and par.value is n and (par.attr in fields or par.attr == '_replace'):
                    continue
                if isinstance(par, ast.Compare) and len(par.ops) == 1 and par.left is n and \
                        isinstance(par.ops[0], (ast.Is, ast.IsNot)) and isinstance(par.comparators[0], ast.Constant) and \
                        par.comparators[0].value is None:
                    continue
                if isinstance(par, (ast.Assign, ast.AnnAssign)) and par.value is n:
                    t = par.targets[0] if isinstance(par, ast.Assign) and len(par.targets) == 1 else \
                        getattr(par, 'target', None)
                    if isinstance(t, ast.Name) and cand.get(t.id) == cls:
                        continue
                return False
        return True
    shrunk = True
    while shrunk:
        shrunk = False
        for r in list(cand):
            if not valid(r):
                del cand[r]
                shrunk = True
    if not cand:
        return False
    noneable = {r for r in cand if any(isinstance(a.value, ast.Constant) and a.value.value is None for a in binds[r])}
    # a candidate that receives a None-able candidate is None-able too
    grew = True
    while grew:
        grew = False
        for r in cand:
            if r not in noneable and any(isinstance(a.value, ast.Name) and a.value.id in noneable for a in binds[r]):
                noneable.add(r)
                grew = True
    all_assigns = {id(a): r for r in cand for a in binds[r]}

    class Fld(ast.NodeTransformer):
        def visit_Compare(self, n):
            n = self.generic_visit(n)
            if len(n.ops) == 1 and isinstance(n.left, ast.Name) and n.left.id in cand and \
                    isinstance(n.ops[0], (ast.Is, ast.IsNot)) and isinstance(n.comparators[0], ast.Constant) and \
                    n.comparators[0].value is None:
                flag = ast.Name(id=f'{n.left.id}__is_none', ctx=ast.Load()) if n.left.id in noneable else \
                    ast.Constant(value=False)
                return ast.copy_location(flag if isinstance(n.ops[0], ast.Is) else
                                         ast.UnaryOp(op=ast.Not(), operand=flag), n)
            return n

        def visit_Attribute(self, n):
            n = self.generic_visit(n)
            if isinstance(n.value, ast.Name) and n.value.id in cand and n.attr in rec_of(cand[n.value.id])[0]:
                return ast.copy_location(ast.Name(id=f'{n.value.id}__{n.attr}', ctx=n.ctx), n)
            return n

    def field_assigns(r, st) -> Optional[List[ast.stmt]]:
        cls = cand[r]
        fields, defaults = rec_of(cls)
        v = st.value
        if isinstance(v, ast.Constant):
            return [ast.Assign(targets=[ast.Name(id=f'{r}__is_none', ctx=ast.Store())], value=ast.Constant(value=True))]
        if isinstance(v, ast.Name):
            new = [ast.Assign(targets=[ast.Name(id=f'{r}__{f_}', ctx=ast.Store())],
                              value=ast.Name(id=f'{v.id}__{f_}', ctx=ast.Load())) for f_ in fields]
            if r in noneable:
                new.append(ast.Assign(targets=[ast.Name(id=f'{r}__is_none', ctx=ast.Store())],
                                      value=ast.Name(id=f'{v.id}__is_none', ctx=ast.Load()) if v.id in noneable
                                      else ast.Constant(value=False)))
            return new
        if ctor_cls(v) == cls:
            pairs = list(zip(fields, v.args)) + [(k.arg, k.value) for k in v.keywords]
            given = {p_ for p_, _e in pairs}
            missing = [f_ for f_ in fields if f_ not in given]
            if any(p_ not in fields for p_ in given) or any(f_ not in defaults for f_ in missing):
                return None
            pairs += [(f_, copy.deepcopy(defaults[f_])) for f_ in missing]
            new = [ast.Assign(targets=[ast.Name(id=f'{r}__{p_}', ctx=ast.Store())], value=Fld().visit(e))
                   for p_, e in pairs]
            if r in noneable:
                new.append(ast.Assign(targets=[ast.Name(id=f'{r}__is_none', ctx=ast.Store())], value=ast.Constant(value=False)))
            return new
        # r = r._replace(a=e, b=e2): every new value is computed before a field is overwritten
        pairs = [(k.arg, k.value) for k in v.keywords]
        if len(pairs) == 1:
            return [ast.Assign(targets=[ast.Name(id=f'{r}__{pairs[0][0]}', ctx=ast.Store())], value=Fld().visit(pairs[0][1]))]
        tmp = [ast.Assign(targets=[ast.Name(id=f'{r}__{p_}__new', ctx=ast.Store())], value=Fld().visit(e)) for p_, e in pairs]
        fin = [ast.Assign(targets=[ast.Name(id=f'{r}__{p_}', ctx=ast.Store())],
                          value=ast.Name(id=f'{r}__{p_}__new', ctx=ast.Load())) for p_, _e in pairs]
        return tmp + fin

    def rewrite(stmts):
        out = []
        for st in stmts:
            for fld in ('body', 'orelse', 'finalbody'):
                sub = getattr(st, fld, None)
                if isinstance(sub, list) and sub and isinstance(sub[0], ast.stmt):
                    setattr(st, fld, rewrite(sub))
            for hd in getattr(st, 'handlers', []) or []:
                hd.body = rewrite(hd.body)
            if id(st) in all_assigns:
                new = field_assigns(all_assigns[id(st)], st)
                if new is not None:
                    for s_ in new:
                        ast.copy_location(s_, st)
                        ast.fix_missing_locations(s_)
                    out += new
                    continue
            out.append(Fld().visit(st))
        return out
    fn.body = rewrite(fn.body)
    ast.fix_missing_locations(fn)
    return True


class _MatchToIf(ast.NodeTransformer):
    """match SUBJECT: case P1: .. case P2 if G: .. case _: ..   ==>   if T1: .. elif T2 and G: .. else: ..
    for the patterns that are plain tests: literals and dotted names (==), None/True/False (is), `a | b`, the wildcard,
    a capture (`case x:` binds x), and sequence patterns over a subject that is written as a tuple display of the same
    length.  The subject must be cheap to read again (names, attributes, constants, a tuple of those); anything else is
    left alone."""

    def __init__(self):
        self.did = False

    def _test(self, pat, subj, binds):
        if isinstance(pat, ast.MatchValue):
            return ast.Compare(left=copy.deepcopy(subj), ops=[ast.Eq()], comparators=[pat.value])
        if isinstance(pat, ast.MatchSingleton):
            return ast.Compare(left=copy.deepcopy(subj), ops=[ast.Is()], comparators=[ast.Constant(value=pat.value)])
        if isinstance(pat, ast.MatchAs):
            if pat.pattern is None:
                if pat.name is not None:
                    binds.append((pat.name, copy.deepcopy(subj)))
                return ast.Constant(value=True)
            t = self._test(pat.pattern, subj, binds)
            if t is not None and pat.name is not None:
                binds.append((pat.name, copy.deepcopy(subj)))
            return t
        if isinstance(pat, ast.MatchOr):
            sub = []
            for p_ in pat.patterns:
                b2 = []
                t = self._test(p_, subj, b2)
                if t is None or b2:
                    return None
                sub.append(t)
            if any(isinstance(t, ast.Constant) and t.value is True for t in sub):
                return ast.Constant(value=True)
            return ast.BoolOp(op=ast.Or(), values=sub) if len(sub) > 1 else sub[0]
        if isinstance(pat, ast.MatchSequence) and isinstance(subj, ast.Tuple) and len(pat.patterns) == len(subj.elts) and \
                not any(isinstance(p_, ast.MatchStar) for p_ in pat.patterns):
            sub = []
            for p_, e_ in zip(pat.patterns, subj.elts):
                t = self._test(p_, e_, binds)
                if t is None:
                    return None
                if not (isinstance(t, ast.Constant) and t.value is True):
                    sub.append(t)
            if not sub:
                return ast.Constant(value=True)
            return ast.BoolOp(op=ast.And(), values=sub) if len(sub) > 1 else sub[0]
        return None

    def visit_Match(self, n):
        n = self.generic_visit(n)
        subj = n.subject
        pre = []
        if not _pure_simple(subj) or any(isinstance(x, ast.Call) for x in ast.walk(subj)):
            # evaluated once, into a fresh local
            self.k = getattr(self, 'k', 0) + 1
            tmp = f'match_subject{self.k}'
            pre = [ast.copy_location(ast.Assign(targets=[ast.Name(id=tmp, ctx=ast.Store())], value=subj), n)]
            subj = ast.Name(id=tmp, ctx=ast.Load())
        arms = []
        for c in n.cases:
            binds = []
            t = self._test(c.pattern, subj, binds)
            if t is None:
                return n
            if c.guard is not None:
                if binds:
                    return n        # the guard may read the capture: keep it simple
                t = c.guard if isinstance(t, ast.Constant) and t.value is True else \
                    ast.BoolOp(op=ast.And(), values=[t, c.guard])
            body = [ast.Assign(targets=[ast.Name(id=nm, ctx=ast.Store())], value=v) for nm, v in binds] + list(c.body)
            arms.append((t, body))
        node = []
        for t, body in reversed(arms):
            if isinstance(t, ast.Constant) and t.value is True:
                node = body
            else:
                node = [ast.If(test=t, body=body, orelse=node)]
        for x in node:
            ast.copy_location(x, n)
            ast.fix_missing_locations(x)
        self.did = True
        for x in pre:
            ast.fix_missing_locations(x)
        return pre + (node or [ast.copy_location(ast.Pass(), n)])


_BROAD_EXC = {'Exception', 'BaseException', 'TypeError', 'ArithmeticError', 'OverflowError'}


def tidy_blocks(fn: ast.FunctionDef) -> bool:
    """two shapes that reading a helper through leaves behind:

        if C: T = K                              T = K
        else: ...; V = K; ...; T = V      ==>    if not C: ... (V spelled T, V = K dropped) ...
      (K the same constant; V only ever augmented / read inside that arm and nowhere else)

        try: ...; V = E                          try: ...; X op= E
        except X1: raise ..               ==>    except X1: raise ..
        X op= V          (V's only use)
      (handlers name specific exception types, none that `X op= V` on numbers / containers could raise itself)"""
    changed = [False]

    def loads(name):
        return sum(1 for x in ast.walk(fn) if isinstance(x, ast.Name) and x.id == name and isinstance(x.ctx, ast.Load))

    def stores_in(nodes, name):
        return [x for n_ in nodes for x in ast.walk(n_) if isinstance(x, (ast.Assign, ast.AugAssign, ast.AnnAssign, ast.For,
                                                                           ast.NamedExpr, ast.With, ast.comprehension))
                for t in ([x.target] if hasattr(x, 'target') else getattr(x, 'targets', []))
                for y in ast.walk(t) if isinstance(y, ast.Name) and y.id == name]

    def const_assign(st, name=None):
        return isinstance(st, ast.Assign) and len(st.targets) == 1 and isinstance(st.targets[0], ast.Name) and \
            isinstance(st.value, ast.Constant) and (name is None or st.targets[0].id == name)

    def branch_init(st: ast.If) -> Optional[List[ast.stmt]]:
        for simple, other, negate in ((st.body, st.orelse, True), (st.orelse, st.body, False)):
            if len(simple) != 1 or not const_assign(simple[0]) or len(other) < 2:
                continue
            T, K = simple[0].targets[0].id, simple[0].value
            # the other arm initialises T itself with the same constant, at its own top level, before any use of T
            own = [x for x in other if const_assign(x, T)]
            if len(own) == 1 and ast.dump(own[0].value) == ast.dump(K) and type(own[0].value.value) is type(K.value):
                idx = other.index(own[0])
                before = other[:idx]
                plain_T = [x for x in stores_in(other, T) if not isinstance(x, ast.AugAssign)]
                if len(plain_T) == 1 and not any(isinstance(y, ast.Name) and y.id == T for b_ in before for y in ast.walk(b_)) \
                        and not any(isinstance(y, ast.Name) and y.id == T for y in ast.walk(st.test)) and \
                        not any(isinstance(b_, (ast.Return, ast.Raise, ast.Break, ast.Continue)) for b_ in before):
                    body = [x for x in other if x is not own[0]]
                    test = ast.UnaryOp(op=ast.Not(), operand=st.test) if negate else st.test
                    if negate and isinstance(st.test, ast.UnaryOp) and isinstance(st.test.op, ast.Not):
                        test = st.test.operand
                    return [ast.copy_location(ast.Assign(targets=[ast.Name(id=T, ctx=ast.Store())], value=K), st),
                            ast.copy_location(ast.If(test=test, body=body or [ast.Pass()], orelse=[]), st)]
            last = other[-1]
            if not (isinstance(last, ast.Assign) and len(last.targets) == 1 and isinstance(last.targets[0], ast.Name) and
                    last.targets[0].id == T and isinstance(last.value, ast.Name)):
                continue
            V = last.value.id
            inits = [x for x in other[:-1] if const_assign(x, V)]
            if len(inits) != 1 or ast.dump(inits[0].value) != ast.dump(K) or type(inits[0].value.value) is not type(K.value):
                continue
            # V lives only inside this arm; apart from its initialisation it is only augmented
            inside = sum(1 for n_ in other for x in ast.walk(n_) if isinstance(x, ast.Name) and x.id == V)
            total = sum(1 for x in ast.walk(fn) if isinstance(x, ast.Name) and x.id == V)
            if inside != total:
                continue
            plain = [x for x in stores_in(other[:-1], V) if not isinstance(x, ast.AugAssign)]
            if len(plain) != 1 or plain[0] is not inits[0]:
                continue
            if any(isinstance(x, ast.Name) and x.id == T for n_ in other[:-1] for x in ast.walk(n_)):
                continue
            if any(isinstance(x, ast.Name) and x.id == T for x in ast.walk(st.test)):
                continue
            # the initialisation must come before anything in the arm that can leave it half-way: keep it simple --
            # it is hoisted in front of the `if`, so the arm must not read T/V before it (checked above)
            body = [_Rename({V: T}, {}).visit(copy.deepcopy(x)) for x in other[:-1] if x is not inits[0]]
            test = ast.UnaryOp(op=ast.Not(), operand=st.test) if negate else st.test
            if negate and isinstance(st.test, ast.UnaryOp) and isinstance(st.test.op, ast.Not):
                test = st.test.operand
            return [ast.copy_location(ast.Assign(targets=[ast.Name(id=T, ctx=ast.Store())], value=K), st),
                    ast.copy_location(ast.If(test=test, body=body or [ast.Pass()], orelse=[]), st)]
        return None

    def block(stmts: List[ast.stmt]) -> List[ast.stmt]:
        out: List[ast.stmt] = []
        i = 0
        while i < len(stmts):
            st = stmts[i]
            for fld in ('body', 'orelse', 'finalbody'):
                sub = getattr(st, fld, None)
                if isinstance(sub, list) and sub and isinstance(sub[0], ast.stmt):
                    setattr(st, fld, block(sub))
            for h in getattr(st, 'handlers', []) or []:
                h.body = block(h.body)
            # if A: X  elif B: X   is   if A or B: X
            while isinstance(st, ast.If) and len(st.orelse) == 1 and isinstance(st.orelse[0], ast.If) and \
                    [ast.dump(x) for x in st.body] == [ast.dump(x) for x in st.orelse[0].body] and \
                    all(isinstance(x, (ast.Return, ast.Raise, ast.Continue, ast.Break, ast.Pass)) for x in st.body):
                inner = st.orelse[0]
                vals = (st.test.values if isinstance(st.test, ast.BoolOp) and isinstance(st.test.op, ast.Or) else [st.test]) + \
                    (inner.test.values if isinstance(inner.test, ast.BoolOp) and isinstance(inner.test.op, ast.Or) else [inner.test])
                st.test = ast.copy_location(ast.BoolOp(op=ast.Or(), values=vals), st.test)
                st.orelse = inner.orelse
                changed[0] = True
            if isinstance(st, ast.If):
                r = branch_init(st)
                if r is not None:
                    changed[0] = True
                    out += r
                    i += 1
                    continue
            # an if-chain whose arms only pick constants / rows / functions for the statements that follow: the
            # statements that follow are read once per arm (arms that leave are left alone)
            if isinstance(st, ast.If) and i + 1 < len(stmts):
                arms, cur_ = [], st
                while True:
                    arms.append(cur_.body)
                    if len(cur_.orelse) == 1 and isinstance(cur_.orelse[0], ast.If):
                        cur_ = cur_.orelse[0]
                        continue
                    arms.append(cur_.orelse)
                    break

                def leaves(a):
                    return bool(a) and isinstance(a[-1], (ast.Return, ast.Raise, ast.Continue, ast.Break))

                def picks(a):
                    return bool(a) and all(isinstance(x, ast.Assign) and len(x.targets) == 1 and
                                           isinstance(x.targets[0], ast.Name) and (
                                               isinstance(x.value, ast.Constant) or
                                               (isinstance(x.value, (ast.Tuple, ast.List)) and
                                                all(_pure_simple(e) for e in x.value.elts)) or
                                               isinstance(x.value, (ast.Name, ast.Lambda))) for x in a)
                staying = [a for a in arms if not leaves(a)]
                rest = stmts[i + 1:]
                picked = {x.targets[0].id for a in staying for x in a if isinstance(x, ast.Assign) and
                          len(x.targets) == 1 and isinstance(x.targets[0], ast.Name)}
                n_rest = sum(1 for r_ in rest for _ in ast.walk(r_) if isinstance(_, ast.stmt))
                if len(staying) >= 2 and all(picks(a) for a in staying) and len(arms) <= 8 and n_rest <= 12 and \
                        any(isinstance(y, ast.Name) and y.id in picked for r_ in rest for y in ast.walk(r_)) and \
                        not getattr(st, '_sunk', False):
                    def rebuild(node):
                        nb = node.body if leaves(node.body) else list(node.body) + copy.deepcopy(rest)
                        if len(node.orelse) == 1 and isinstance(node.orelse[0], ast.If):
                            no = [rebuild(node.orelse[0])]
                        else:
                            no = node.orelse if leaves(node.orelse) else list(node.orelse) + copy.deepcopy(rest)
                        new_ = ast.copy_location(ast.If(test=node.test, body=nb, orelse=no), node)
                        new_._sunk = True
                        return new_
                    out.append(rebuild(st))
                    out[-1].body = block(out[-1].body)
                    out[-1].orelse = block(out[-1].orelse)
                    changed[0] = True
                    return out
            # ROWS = [(c1, <call>), (c2, <call>)] only ever looped over: the calls get a name each (in order), so the
            # rows are plain values and the loops over them can be written out
            if isinstance(st, ast.Assign) and len(st.targets) == 1 and isinstance(st.targets[0], ast.Name) and \
                    isinstance(st.value, (ast.List, ast.Tuple)) and st.value.elts and \
                    all(isinstance(r_, (ast.Tuple, ast.List)) for r_ in st.value.elts) and \
                    any(not _pure_simple(e) for r_ in st.value.elts for e in r_.elts) and \
                    not getattr(st, '_hoisted', False):
                tn = st.targets[0].id
                uses = [x for x in ast.walk(fn) if isinstance(x, ast.Name) and x.id == tn and isinstance(x.ctx, ast.Load)]
                loops = [x for x in ast.walk(fn) if isinstance(x, ast.For) and isinstance(x.iter, ast.Name) and x.iter.id == tn]
                stores_ = sum(1 for x in ast.walk(fn) if isinstance(x, ast.Name) and x.id == tn and isinstance(x.ctx, ast.Store))
                if uses and len(uses) == len(loops) and stores_ == 1:
                    k_ = 0
                    for r_ in st.value.elts:
                        for j_, e in enumerate(r_.elts):
                            if not _pure_simple(e):
                                k_ += 1
                                nm = f'{tn}_{k_}'
                                out.append(ast.copy_location(ast.Assign(targets=[ast.Name(id=nm, ctx=ast.Store())], value=e), st))
                                r_.elts[j_] = ast.Name(id=nm, ctx=ast.Load())
                    st._hoisted = True
                    changed[0] = True
                    out.append(st)
                    i += 1
                    continue
            # T = E ; X op= T   (T read nowhere else)   is   X op= E
            nx_ = stmts[i + 1] if i + 1 < len(stmts) else None
            if isinstance(st, ast.Assign) and len(st.targets) == 1 and isinstance(st.targets[0], ast.Name) and \
                    isinstance(nx_, (ast.AugAssign, ast.Assign)) and isinstance(nx_.value, ast.Name) and \
                    nx_.value.id == st.targets[0].id:
                T = st.targets[0].id
                tgt_ = nx_.target if isinstance(nx_, ast.AugAssign) else nx_.targets[0]
                loads_T = sum(1 for y in ast.walk(fn) if isinstance(y, ast.Name) and y.id == T and isinstance(y.ctx, ast.Load))
                stores_T = sum(1 for y in ast.walk(fn) if isinstance(y, ast.Name) and y.id == T and isinstance(y.ctx, ast.Store))
                if isinstance(tgt_, ast.Name) and tgt_.id != T and loads_T == stores_T and \
                        not any(isinstance(y, ast.Name) and y.id == tgt_.id for y in ast.walk(st.value)) and \
                        all(isinstance(a_, ast.Assign) for a_ in ast.walk(fn)
                            if isinstance(a_, (ast.Assign, ast.AugAssign, ast.For, ast.comprehension, ast.NamedExpr)) and
                            any(isinstance(y, ast.Name) and y.id == T and isinstance(y.ctx, ast.Store)
                                for y in ast.walk(a_.targets[0] if isinstance(a_, ast.Assign) else a_.target))):
                    merged = copy.copy(nx_)
                    merged.value = st.value
                    out.append(ast.copy_location(merged, nx_))
                    changed[0] = True
                    i += 2
                    continue
            # a loop over an empty literal does nothing
            if isinstance(st, ast.For) and isinstance(st.iter, (ast.Tuple, ast.List)) and not st.iter.elts and not st.orelse:
                changed[0] = True
                i += 1
                continue
            # a, b, c = (x, y, z)  is  a = x; b = y; c = z   when no target is read on the right
            if isinstance(st, ast.Assign) and len(st.targets) == 1 and isinstance(st.targets[0], (ast.Tuple, ast.List)) and \
                    isinstance(st.value, (ast.Tuple, ast.List)) and len(st.targets[0].elts) == len(st.value.elts) and \
                    all(isinstance(t, ast.Name) for t in st.targets[0].elts) and \
                    not any(isinstance(e, ast.Starred) for e in st.value.elts):
                tn = {t.id for t in st.targets[0].elts}
                if not any(isinstance(y, ast.Name) and y.id in tn for e in st.value.elts for y in ast.walk(e)):
                    for t, e in zip(st.targets[0].elts, st.value.elts):
                        out.append(ast.copy_location(ast.Assign(targets=[ast.Name(id=t.id, ctx=ast.Store())], value=e), st))
                    changed[0] = True
                    i += 1
                    continue
            # case split on a table row:  ROW = T1 if c1 else T2 if c2 else None ; <rest>   becomes
            #   if c1: <rest with ROW := T1>  elif c2: <rest with ROW := T2>  else: <rest with ROW := None>
            # (leaves: literal tuples of names / constants, or None; ROW bound nowhere else; a short rest)
            if isinstance(st, ast.Assign) and len(st.targets) == 1 and isinstance(st.targets[0], ast.Name) and \
                    isinstance(st.value, ast.IfExp):
                row = st.targets[0].id
                leaves, tests = [], []
                cur = st.value
                while isinstance(cur, ast.IfExp):
                    tests.append(cur.test)
                    leaves.append(cur.body)
                    cur = cur.orelse
                leaves.append(cur)

                def leaf_ok(e):
                    return (isinstance(e, ast.Constant) and e.value is None) or \
                        (isinstance(e, (ast.Tuple, ast.List)) and e.elts and all(_pure_simple(x) for x in e.elts))
                rest = stmts[i + 1:]
                n_rest = sum(1 for r_ in rest for _ in ast.walk(r_) if isinstance(_, ast.stmt))
                stores_row = sum(1 for x in ast.walk(fn) if isinstance(x, ast.Name) and x.id == row and
                                 isinstance(x.ctx, ast.Store))
                if 2 <= len(leaves) <= 8 and all(leaf_ok(e) for e in leaves) and \
                        any(isinstance(e, (ast.Tuple, ast.List)) for e in leaves) and rest and n_rest <= 16 and \
                        stores_row == 1 and all(_pure_simple(t) for t in tests) and \
                        not any(isinstance(x, ast.Name) and isinstance(x.ctx, ast.Store) and
                                x.id in {y.id for t in tests for y in ast.walk(t) if isinstance(y, ast.Name)}
                                for r_ in rest for x in ast.walk(r_)):
                    def arm(leaf):
                        return block([_Rename({}, {row: leaf}).visit(copy.deepcopy(r_)) for r_ in rest])
                    node = arm(leaves[-1])
                    for t, leaf in reversed(list(zip(tests, leaves[:-1]))):
                        node = [ast.copy_location(ast.If(test=t, body=arm(leaf), orelse=node), st)]
                    out += node
                    changed[0] = True
                    return out
            nxt = stmts[i + 1] if i + 1 < len(stmts) else None
            if isinstance(st, ast.Try) and not st.orelse and not st.finalbody and st.body and st.handlers and \
                    isinstance(st.body[-1], ast.Assign) and len(st.body[-1].targets) == 1 and \
                    isinstance(st.body[-1].targets[0], ast.Name) and nxt is not None and \
                    isinstance(nxt, (ast.AugAssign, ast.Assign)) and isinstance(nxt.value, ast.Name) and \
                    nxt.value.id == st.body[-1].targets[0].id:
                V = nxt.value.id
                tgt = nxt.target if isinstance(nxt, ast.AugAssign) else nxt.targets[0]
                specific = all(h.type is not None and all(
                    isinstance(t, ast.Name) and t.id not in _BROAD_EXC
                    for t in (h.type.elts if isinstance(h.type, ast.Tuple) else [h.type])) and h.body and
                    isinstance(h.body[-1], ast.Raise) for h in st.handlers)
                if specific and isinstance(tgt, ast.Name) and tgt.id != V and loads(V) == 1 and \
                        len(stores_in([fn], V)) == 1:
                    moved = copy.copy(nxt)
                    moved.value = st.body[-1].value
                    st.body = st.body[:-1] + [ast.copy_location(moved, st.body[-1])]
                    changed[0] = True
                    out.append(st)
                    i += 2
                    continue
            out.append(st)
            i += 1
            if isinstance(st, (ast.Return, ast.Raise, ast.Break, ast.Continue)) and i < len(stmts):
                changed[0] = True          # what follows in this block is never reached
                break
        if len(out) > 1 and any(isinstance(x, ast.Pass) for x in out):
            out = [x for x in out if not isinstance(x, ast.Pass)] or [out[0]]
        return out
    fn.body = block(fn.body)
    # what reading through leaves unused: a nested def nobody refers to any more, a local that only ever held a function
    # value / constant and is not read
    for _round in range(3):
        loaded = {x.id for x in ast.walk(fn) if isinstance(x, ast.Name) and isinstance(x.ctx, ast.Load)}
        defs_ = {x.name for x in ast.walk(fn) if isinstance(x, ast.FunctionDef) and x is not fn}

        def dead(st) -> bool:
            if isinstance(st, ast.FunctionDef) and st.name not in loaded and not st.decorator_list:
                return True
            if isinstance(st, ast.Assign) and len(st.targets) == 1 and isinstance(st.targets[0], ast.Name) and \
                    st.targets[0].id not in loaded and (
                        (isinstance(st.value, ast.Name) and st.value.id in defs_) or isinstance(st.value, ast.Lambda) or
                        (isinstance(st.value, ast.Constant) and st.targets[0].id == '_') or
                        (isinstance(st.value, (ast.IfExp, ast.Attribute)) and _pure_simple(st.value) and
                         not any(isinstance(y, ast.Call) for y in ast.walk(st.value))) or
                        (isinstance(st.value, ast.Tuple) and all(isinstance(e, (ast.Name, ast.Constant))
                                                                 for e in st.value.elts))):
                return True
            return False

        def sweep(stmts):
            out, hit = [], False
            for st in stmts:
                if dead(st):
                    hit = True
                    continue
                for fld in ('body', 'orelse', 'finalbody'):
                    sub = getattr(st, fld, None)
                    if isinstance(sub, list) and sub and isinstance(sub[0], ast.stmt) and not isinstance(st, ast.FunctionDef):
                        new_, h_ = sweep(sub)
                        hit = hit or h_
                        setattr(st, fld, new_ or ([ast.Pass()] if fld == 'body' else []))
                out.append(st)
            return out, hit
        fn.body, hit_ = sweep(fn.body)
        if not hit_:
            break
        changed[0] = True
    if changed[0]:
        ast.fix_missing_locations(fn)
    return changed[0]


def propagate_callable_locals(fn: ast.FunctionDef, helper_names) -> bool:
    """`build = f if c else g` ... `build(x)`  ==>  `(f if c else g)(x)` for the calls that follow in the same block
    before `build` is bound again (f, g: helper functions -- function values are pure, so reading them again is the same)"""
    changed = [False]

    helper_names = set(helper_names) | {st_.name for st_ in ast.walk(fn) if isinstance(st_, ast.FunctionDef) and st_ is not fn}

    def callable_value(v) -> bool:
        if isinstance(v, ast.Name):
            return v.id in helper_names
        if isinstance(v, ast.Attribute) and isinstance(v.value, ast.Name) and v.value.id in ('self', 'cls') and \
                not any(isinstance(y, ast.Attribute) and isinstance(y.ctx, ast.Store) and y.attr == v.attr
                        for y in ast.walk(fn)):
            return True       # a bound method picked once (`add = self._add_a if c else self._add_b`) and called later
        if isinstance(v, ast.IfExp):
            # (a conditional between whole rows is left to the case split, which reads the rest once per row)
            return callable_value(v.body) and callable_value(v.orelse) and \
                not isinstance(v.body, ast.Tuple) and not isinstance(v.orelse, ast.Tuple)
        if isinstance(v, ast.Lambda):
            return True
        if isinstance(v, ast.Tuple) and v.elts and all(callable_value(e) or isinstance(e, (ast.Name, ast.Constant)) or
                                                       (_pure_simple(e) and not isinstance(e, ast.Tuple))
                                                       for e in v.elts):
            return True       # a row of function values / constants / plain names
        if isinstance(v, ast.Constant) and (v.value is None or isinstance(v.value, (bool, str))):
            return True
        if isinstance(v, ast.Call) and isinstance(v.func, ast.Name) and v.func.id == '__no_such_key__':
            return True       # the missing-key leaf of a dispatch table read as a conditional
        if isinstance(v, ast.Call) and isinstance(v.func, ast.Name) and \
                v.func.id.lstrip('_') in ('methodcaller', 'attrgetter', 'itemgetter') and not v.keywords and \
                all(_pure_simple(a_) for a_ in v.args):
            return True       # operator.methodcaller('name', ..): a function value made of constants / plain names
        return False

    def block(stmts):
        for st in stmts:
            for fld in ('body', 'orelse', 'finalbody'):
                sub = getattr(st, fld, None)
                if isinstance(sub, list) and sub and isinstance(sub[0], ast.stmt):
                    block(sub)
            for hd in getattr(st, 'handlers', []) or []:
                block(hd.body)
        for k, st in enumerate(stmts):
            if isinstance(st, ast.Assign) and len(st.targets) == 1 and isinstance(st.targets[0], ast.Name) and \
                    callable_value(st.value):
                x, v = st.targets[0].id, st.value
                free = {y.id for y in ast.walk(v) if isinstance(y, ast.Name)}
                for later in stmts[k + 1:]:
                    stores = {y.id for y in ast.walk(later) if isinstance(y, ast.Name) and isinstance(y.ctx, ast.Store)}

                    class Sub(ast.NodeTransformer):
                        def visit_Call(self, n):
                            n = self.generic_visit(n)
                            if isinstance(n.func, ast.Name) and n.func.id == x:
                                changed[0] = True
                                n.func = copy.deepcopy(v)
                            return n

                        def visit_Name(self, n):
                            # a function value / constant read as a value (`g = f if c else h`, `if flag:`)
                            if n.id == x and isinstance(n.ctx, ast.Load) and x not in stores and not (free & stores):
                                changed[0] = True
                                return ast.copy_location(copy.deepcopy(v), n)
                            return n

                        def visit_Lambda(self, n):
                            return n if x in {a.arg for a in n.args.args} else self.generic_visit(n)
                    Sub().visit(later)
                    if x in stores or (free & stores):
                        break
    block(fn.body)
    return changed[0]


def propagate_generator_locals(fn: ast.FunctionDef, gen_names) -> bool:
    """`items = gen_helper(a, b)` ... `for x in items:`  ==>  `for x in gen_helper(a, b):` -- a generator object does
    nothing until it is iterated, so where it is created does not matter (arguments that are plain names / attributes
    only, the local bound once and not re-bound in between)"""
    changed = [False]
    counts: Dict[str, int] = {}
    for n in _own_nodes(fn):
        if isinstance(n, ast.Name) and isinstance(n.ctx, ast.Store):
            counts[n.id] = counts.get(n.id, 0) + 1

    def block(stmts):
        for st in stmts:
            for fld in ('body', 'orelse', 'finalbody'):
                sub = getattr(st, fld, None)
                if isinstance(sub, list) and sub and isinstance(sub[0], ast.stmt):
                    block(sub)
        k = 0
        while k < len(stmts):
            st = stmts[k]
            is_helper_gen = isinstance(st, ast.Assign) and isinstance(st.value, ast.Call) and \
                isinstance(st.value.func, ast.Name) and st.value.func.id in gen_names and \
                all(_pure_simple(a) for a in list(st.value.args) + [kw.value for kw in st.value.keywords])
            # a generator expression over something cheap to read, consumed exactly once later on
            def lazy_(e):
                if isinstance(e, ast.GeneratorExp):
                    return _pure_simple(e.generators[0].iter) or lazy_(e.generators[0].iter)
                if isinstance(e, ast.Call) and ((isinstance(e.func, ast.Name) and e.func.id.lstrip('_') == 'chain') or (
                        isinstance(e.func, ast.Attribute) and e.func.attr == 'chain')) and e.args and not e.keywords:
                    return all(lazy_(a) or _pure_simple(a) for a in e.args)
                return False
            def eager_ok_():
                # a list comprehension is evaluated where it is written: it may be read at its single use (the iterable of
                # a later `for`) only when nothing but function definitions and constant bindings lies in between
                if not (isinstance(st.value, ast.ListComp) and _pure_simple(st.value.generators[0].iter) or
                        (isinstance(st.value, ast.ListComp) and isinstance(st.value.generators[0].iter, ast.Call) and
                         isinstance(st.value.generators[0].iter.func, ast.Name) and
                         st.value.generators[0].iter.func.id == 'map')):
                    return False
                for later in stmts[k + 1:]:
                    if isinstance(later, ast.For) and isinstance(later.iter, ast.Name) and \
                            later.iter.id == st.targets[0].id:
                        return True
                    if isinstance(later, ast.FunctionDef) or (isinstance(later, ast.Assign) and
                                                              isinstance(later.value, ast.Constant)):
                        continue
                    return False
                return False
            is_genexp = isinstance(st, ast.Assign) and len(st.targets) == 1 and \
                isinstance(st.targets[0], ast.Name) and (lazy_(st.value) or eager_ok_()) and \
                isinstance(st.targets[0], ast.Name) and sum(
                    1 for y in ast.walk(fn) if isinstance(y, ast.Name) and y.id == st.targets[0].id and
                    isinstance(y.ctx, ast.Load)) == 1
            if isinstance(st, ast.Assign) and len(st.targets) == 1 and isinstance(st.targets[0], ast.Name) and \
                    counts.get(st.targets[0].id) == 1 and (is_helper_gen or is_genexp):
                x, v = st.targets[0].id, st.value
                free = {y.id for y in ast.walk(v) if isinstance(y, ast.Name)}
                if isinstance(v, (ast.GeneratorExp, ast.ListComp)):      # its own variables are not free
                    free -= {y.id for g_ in v.generators for y in ast.walk(g_.target) if isinstance(y, ast.Name)}
                rest = stmts[k + 1:]
                if not any(isinstance(y, ast.Name) and isinstance(y.ctx, ast.Store) and y.id in free
                           for r in rest for y in ast.walk(r)):
                    class Sub(ast.NodeTransformer):
                        def visit_Name(self, n):
                            if n.id == x and isinstance(n.ctx, ast.Load):
                                changed[0] = True
                                return ast.copy_location(copy.deepcopy(v), n)
                            return n
                    for r in rest:
                        Sub().visit(r)
                    del stmts[k]
                    continue
            k += 1
    block(fn.body)
    return changed[0]


def functional_to_loops(fn: ast.FunctionDef, helper_names=()) -> bool:
    """`x = reduce(lambda acc, v: E, IT, INIT)`  ==>  `x = INIT; for v in IT: x = E[acc := x]`
    `for v in chain(A, B, ..): BODY`           ==>  `for v in A: BODY; for v in B: BODY; ..`
    `for v in (A if c else ()): BODY`          ==>  `if c: for v in A: BODY`
    (statement level only; what is computed, and in which order, is unchanged)"""
    changed = [False]

    def is_call(e, names) -> bool:
        return isinstance(e, ast.Call) and ((isinstance(e.func, ast.Name) and e.func.id in names) or (
            isinstance(e.func, ast.Attribute) and e.func.attr in names and isinstance(e.func.value, ast.Name) and
            e.func.value.id in ('functools', 'itertools')))

    def empty(e) -> bool:
        return (isinstance(e, (ast.Tuple, ast.List)) and not e.elts) or (
            isinstance(e, ast.Call) and isinstance(e.func, ast.Name) and e.func.id in ('tuple', 'list', 'iter') and
            not e.args)

    def block(stmts: List[ast.stmt]) -> List[ast.stmt]:
        out: List[ast.stmt] = []
        for st in stmts:
            for fld in ('body', 'orelse', 'finalbody'):
                sub = getattr(st, fld, None)
                if isinstance(sub, list) and sub and isinstance(sub[0], ast.stmt):
                    setattr(st, fld, block(sub))
            for hd in getattr(st, 'handlers', []) or []:
                hd.body = block(hd.body)
            if isinstance(st, ast.Assign) and len(st.targets) == 1 and isinstance(st.targets[0], ast.Name) and \
                    is_call(st.value, ('reduce',)) and len(st.value.args) == 3 and not st.value.keywords and \
                    isinstance(st.value.args[0], ast.Lambda) and len(st.value.args[0].args.args) == 2:
                lam, it, init = st.value.args
                x = st.targets[0].id
                acc, v = lam.args.args[0].arg, lam.args.args[1].arg
                if any(isinstance(y, ast.Name) and y.id == x for y in ast.walk(lam.body)) and x not in (acc, v):
                    # a comprehension variable inside the lambda carries the name of the target: renamed first
                    al_ = _Alpha({x}, '_inner')
                    lam2 = copy.deepcopy(lam)
                    lam2.body = al_.visit(lam2.body)
                    if al_.did:
                        lam = lam2
                if not any(isinstance(y, ast.Name) and y.id == x for y in ast.walk(it)) and \
                        not any(isinstance(y, ast.Name) and y.id == x for y in ast.walk(lam.body)):
                    body = _Rename({}, {acc: ast.Name(id=x, ctx=ast.Load())}).visit(copy.deepcopy(lam.body))
                    new = [ast.Assign(targets=[ast.Name(id=x, ctx=ast.Store())], value=init),
                           ast.For(target=ast.Name(id=v, ctx=ast.Store()), iter=it,
                                   body=[ast.Assign(targets=[ast.Name(id=x, ctx=ast.Store())], value=body)], orelse=[])]
                    if isinstance(init, ast.Name) and init.id == x:
                        new = new[1:]
                    for s_ in new:
                        ast.copy_location(s_, st)
                        ast.fix_missing_locations(s_)
                    changed[0] = True
                    out += block(new)
                    continue
            # x = reduce(add, IT, INIT)  (operator.add / mul)  is  x = INIT; for v in IT: x = x + v
            if isinstance(st, ast.Assign) and len(st.targets) == 1 and isinstance(st.targets[0], ast.Name) and \
                    is_call(st.value, ('reduce',)) and len(st.value.args) == 3 and not st.value.keywords:
                fn0 = st.value.args[0]
                opn = fn0.id if isinstance(fn0, ast.Name) else fn0.attr if isinstance(fn0, ast.Attribute) and \
                    isinstance(fn0.value, ast.Name) and fn0.value.id == 'operator' else None
                op_ = {'add': ast.Add, 'iadd': ast.Add, 'mul': ast.Mult}.get((opn or '').lstrip('_'))
                x = st.targets[0].id
                if op_ is not None and not any(isinstance(y, ast.Name) and y.id == x for y in ast.walk(st.value.args[1])):
                    v = f'{x}_term'
                    new = [ast.Assign(targets=[ast.Name(id=x, ctx=ast.Store())], value=st.value.args[2]),
                           ast.For(target=ast.Name(id=v, ctx=ast.Store()), iter=st.value.args[1],
                                   body=[ast.AugAssign(target=ast.Name(id=x, ctx=ast.Store()), op=op_(),
                                                       value=ast.Name(id=v, ctx=ast.Load()))], orelse=[])]
                    for s_ in new:
                        ast.copy_location(s_, st)
                        ast.fix_missing_locations(s_)
                    changed[0] = True
                    out += block(new)
                    continue
            # for x in (E for y in IT if C): ..  /  for x in [E for ..]:   is   for y in IT: if C: x = E; ..
            if isinstance(st, ast.For) and isinstance(st.iter, (ast.GeneratorExp, ast.ListComp)) and not st.orelse and \
                    isinstance(st.target, ast.Name) and not _own_break(st.body) and not _own_continue(st.body):
                ge_ = st.iter
                bound = {y.id for g in ge_.generators for y in ast.walk(g.target) if isinstance(y, ast.Name)}
                body_names = {y.id for b_ in st.body for y in ast.walk(b_) if isinstance(y, ast.Name)}
                same_var = isinstance(ge_.elt, ast.Name) and ge_.elt.id == st.target.id and len(ge_.generators) == 1 and \
                    isinstance(ge_.generators[0].target, ast.Name) and ge_.generators[0].target.id == st.target.id
                if same_var or (not (bound & body_names) and st.target.id not in bound):
                    body_ = ([] if same_var else
                             [ast.Assign(targets=[ast.Name(id=st.target.id, ctx=ast.Store())], value=ge_.elt)]) + list(st.body)
                    for gen in reversed(ge_.generators):
                        for tst in reversed(gen.ifs):
                            body_ = [ast.If(test=tst, body=body_, orelse=[])]
                        body_ = [ast.For(target=gen.target, iter=gen.iter, body=body_, orelse=[])]
                    for s_ in body_:
                        ast.copy_location(s_, st)
                        ast.fix_missing_locations(s_)
                    changed[0] = True
                    out += block(body_)
                    continue
            # `if not all(P for x in G): <leave>`  is  `for x in G: if not P: <leave>`   (any: `if any(..)`)
            if isinstance(st, ast.If) and not st.orelse and st.body and isinstance(st.body[-1], (ast.Return, ast.Raise)):
                t = st.test
                neg = isinstance(t, ast.UnaryOp) and isinstance(t.op, ast.Not)
                call = t.operand if neg else t
                if isinstance(call, ast.Call) and isinstance(call.func, ast.Name) and len(call.args) == 1 and \
                        not call.keywords and isinstance(call.args[0], ast.GeneratorExp) and \
                        ((neg and call.func.id == 'all') or (not neg and call.func.id == 'any')) and \
                        any(isinstance(g.iter, ast.Call) and (
                            (isinstance(g.iter.func, ast.Name) and g.iter.func.id in helper_names) or
                            (isinstance(g.iter.func, ast.Attribute) and g.iter.func.attr in helper_names))
                            for g in call.args[0].generators):
                    ge_ = call.args[0]
                    inner_test = ast.UnaryOp(op=ast.Not(), operand=ge_.elt) if call.func.id == 'all' else ge_.elt
                    body_: List[ast.stmt] = [ast.If(test=inner_test, body=st.body, orelse=[])]
                    for gen in reversed(ge_.generators):
                        for tst in reversed(gen.ifs):
                            body_ = [ast.If(test=tst, body=body_, orelse=[])]
                        body_ = [ast.For(target=gen.target, iter=gen.iter, body=body_, orelse=[])]
                    for s_ in body_:
                        ast.copy_location(s_, st)
                        ast.fix_missing_locations(s_)
                    changed[0] = True
                    out += block(body_)
                    continue
            # x = x + e  is  x += e
            if isinstance(st, ast.Assign) and len(st.targets) == 1 and isinstance(st.targets[0], ast.Name) and \
                    isinstance(st.value, ast.BinOp) and isinstance(st.value.op, (ast.Add, ast.Sub)) and \
                    isinstance(st.value.left, ast.Name) and st.value.left.id == st.targets[0].id and \
                    not any(isinstance(y, ast.Name) and y.id == st.targets[0].id for y in ast.walk(st.value.right)):
                new_st = ast.copy_location(ast.AugAssign(target=ast.Name(id=st.targets[0].id, ctx=ast.Store()),
                                                         op=st.value.op, value=st.value.right), st)
                ast.fix_missing_locations(new_st)
                changed[0] = True
                out.append(new_st)
                continue
            # x = A if c else B  with a helper call in an arm: the arms as statements (the inliner reads them then)
            if isinstance(st, (ast.Assign, ast.Return)) and isinstance(getattr(st, 'value', None), ast.IfExp) and \
                    helper_names and any(isinstance(y, ast.Call) and (
                        (isinstance(y.func, ast.Name) and y.func.id in helper_names) or
                        (isinstance(y.func, ast.Attribute) and y.func.attr in helper_names))
                        for arm in (st.value.body, st.value.orelse) for y in ast.walk(arm)):
                def arm_stmt(e):
                    return ast.Assign(targets=copy.deepcopy(st.targets), value=e) if isinstance(st, ast.Assign) \
                        else ast.Return(value=e)
                new_if = ast.If(test=st.value.test, body=[arm_stmt(st.value.body)], orelse=[arm_stmt(st.value.orelse)])
                ast.copy_location(new_if, st)
                ast.fix_missing_locations(new_if)
                changed[0] = True
                out += block([new_if])
                continue
            # `f(x) if c else g(x)` as a statement
            if isinstance(st, ast.Expr) and isinstance(st.value, ast.IfExp):
                new_if = ast.If(test=st.value.test, body=[ast.Expr(value=st.value.body)],
                                orelse=[ast.Expr(value=st.value.orelse)])
                ast.copy_location(new_if, st)
                ast.fix_missing_locations(new_if)
                changed[0] = True
                out += block([new_if])
                continue
            # acc.append(A if c else B)  (also AugAssign values) with a helper call in an arm: one statement per arm
            ife = None
            if isinstance(st, ast.Expr) and isinstance(st.value, ast.Call) and len(st.value.args) == 1 and \
                    not st.value.keywords and isinstance(st.value.args[0], ast.IfExp) and _pure_simple(st.value.func):
                ife = st.value.args[0]
                mk_ = lambda e: ast.Expr(value=ast.Call(func=copy.deepcopy(st.value.func), args=[e], keywords=[]))
            elif isinstance(st, ast.AugAssign) and isinstance(st.value, ast.IfExp) and isinstance(st.target, ast.Name):
                ife = st.value
                mk_ = lambda e: ast.AugAssign(target=copy.deepcopy(st.target), op=st.op, value=e)
            if ife is not None and helper_names and any(
                    isinstance(y, ast.Call) and ((isinstance(y.func, ast.Name) and y.func.id in helper_names) or
                                                 (isinstance(y.func, ast.Attribute) and y.func.attr in helper_names))
                    for arm in (ife.body, ife.orelse) for y in ast.walk(arm)):
                new_if = ast.If(test=ife.test, body=[mk_(ife.body)], orelse=[mk_(ife.orelse)])
                ast.copy_location(new_if, st)
                ast.fix_missing_locations(new_if)
                changed[0] = True
                out += block([new_if])
                continue
            # for x in map(F, IT): ..   is   for x0 in IT: x = F(x0); ..
            if isinstance(st, ast.For) and isinstance(st.iter, ast.Call) and isinstance(st.iter.func, ast.Name) and \
                    st.iter.func.id == 'map' and len(st.iter.args) == 2 and not st.iter.keywords and \
                    isinstance(st.target, ast.Name) and (_pure_simple(st.iter.args[0]) or (
                        isinstance(st.iter.args[0], ast.Call) and isinstance(st.iter.args[0].func, ast.Name) and
                        st.iter.args[0].func.id.lstrip('_') in ('methodcaller', 'attrgetter', 'itemgetter') and
                        all(_pure_simple(a_) for a_ in st.iter.args[0].args))):
                src = ast.Name(id=st.target.id + '_item', ctx=ast.Store())
                bind_ = ast.Assign(targets=[ast.Name(id=st.target.id, ctx=ast.Store())],
                                   value=ast.Call(func=st.iter.args[0], args=[ast.Name(id=src.id, ctx=ast.Load())], keywords=[]))
                new_for = ast.For(target=src, iter=st.iter.args[1], body=[bind_] + list(st.body), orelse=list(st.orelse))
                ast.copy_location(new_for, st)
                ast.fix_missing_locations(new_for)
                changed[0] = True
                out += block([new_for])
                continue
            if isinstance(st, ast.For) and not st.orelse and not _own_break(st.body):
                it = st.iter
                # chain.from_iterable(E): one more loop level; a generator expression E is written as its loops
                if isinstance(it, ast.Call) and isinstance(it.func, ast.Attribute) and it.func.attr == 'from_iterable' and \
                        len(it.args) == 1 and not it.keywords and 'chain' in ast.unparse(it.func.value):
                    src = it.args[0]
                    inner_loop = lambda over: ast.For(target=copy.deepcopy(st.target), iter=over,
                                                      body=copy.deepcopy(st.body), orelse=[])
                    if isinstance(src, (ast.GeneratorExp, ast.ListComp)):
                        body_ = [inner_loop(src.elt)]
                        for gen in reversed(src.generators):
                            for tst in reversed(gen.ifs):
                                body_ = [ast.If(test=tst, body=body_, orelse=[])]
                            body_ = [ast.For(target=gen.target, iter=gen.iter, body=body_, orelse=[])]
                        new = body_
                    else:
                        tmpn = ast.Name(id=f'group{id(st) % 9973}', ctx=ast.Store())
                        new = [ast.For(target=tmpn, iter=src, body=[inner_loop(ast.Name(id=tmpn.id, ctx=ast.Load()))],
                                       orelse=[])]
                    for s_ in new:
                        ast.copy_location(s_, st)
                        ast.fix_missing_locations(s_)
                    changed[0] = True
                    out += block(new)
                    continue
                if is_call(it, ('chain',)) and it.args and not it.keywords and \
                        not any(isinstance(a, ast.Starred) for a in it.args):
                    new = [ast.copy_location(ast.For(target=copy.deepcopy(st.target), iter=a,
                                                     body=copy.deepcopy(st.body), orelse=[]), st) for a in it.args]
                    for s_ in new:
                        ast.fix_missing_locations(s_)
                    changed[0] = True
                    out += block(new)
                    continue
                if isinstance(it, ast.IfExp) and (empty(it.orelse) or empty(it.body)):
                    test, arm = (it.test, it.body) if empty(it.orelse) else (ast.UnaryOp(op=ast.Not(), operand=it.test),
                                                                             it.orelse)
                    loop = ast.copy_location(ast.For(target=st.target, iter=arm, body=st.body, orelse=[]), st)
                    new_if = ast.copy_location(ast.If(test=test, body=[loop], orelse=[]), st)
                    ast.fix_missing_locations(new_if)
                    changed[0] = True
                    out += block([new_if])
                    continue
            out.append(st)
        return out
    fn.body = block(fn.body)
    # guard clauses inside loops: `if T: continue` followed by REST  ==>  `if not T: REST`
    from .emit import negate

    def unguard(stmts: List[ast.stmt], in_loop: bool) -> List[ast.stmt]:
        out: List[ast.stmt] = []
        for k, st in enumerate(stmts):
            for fld in ('body', 'orelse', 'finalbody'):
                sub = getattr(st, fld, None)
                if isinstance(sub, list) and sub and isinstance(sub[0], ast.stmt):
                    setattr(st, fld, unguard(sub, in_loop if not isinstance(st, (ast.For, ast.While)) or fld != 'body'
                                             else True))
            for hd in getattr(st, 'handlers', []) or []:
                hd.body = unguard(hd.body, in_loop)
            if in_loop and isinstance(st, ast.If) and not st.orelse and len(st.body) == 1 and \
                    isinstance(st.body[0], ast.Continue) and k + 1 < len(stmts):
                rest = unguard(list(stmts[k + 1:]), in_loop)
                new_if = ast.copy_location(ast.If(test=negate(st.test), body=rest, orelse=[]), st)
                ast.fix_missing_locations(new_if)
                changed[0] = True
                out.append(new_if)
                return out
            out.append(st)
        return out
    fn.body = unguard(fn.body, False)
    return changed[0]


def normalise_module(tree: ast.Module, modname: str) -> Dict[str, List[str]]:
    """in place; returns {function qualname: [helpers read through / 'unrolled']} for the record"""
    inv = inventory().get(modname)
    funcs = module_functions(tree)
    if inv is None:
        inv = {}
    new = {q for q in funcs if q not in inv}
    changed = {q for q, (n, c) in funcs.items() if q in new or inv.get(q) != body_digest(n)}
    if not changed:
        return {}
    known_classes = set((inv.get('__classes__') or '').split())
    new_classes = {c_.name: c_ for c_ in tree.body if isinstance(c_, ast.ClassDef) and c_.name not in known_classes}
    helpers = {q: _Helper(q, n, c) for q, (n, c) in funcs.items()
               if q in new and not (n.name.startswith('__') and n.name.endswith('__')) and
               (n.name.startswith('_') or (c is not None and c.name in new_classes))}
    # record types among the new classes: fields are the annotated names of the class body, in order
    records: Dict[str, List[str]] = {}
    for cname, cnode in new_classes.items():
        flds = [b.target.id for b in cnode.body if isinstance(b, ast.AnnAssign) and isinstance(b.target, ast.Name)]
        dflt = {b.target.id: b.value for b in cnode.body if isinstance(b, ast.AnnAssign) and
                isinstance(b.target, ast.Name) and b.value is not None and isinstance(b.value, ast.Constant)}
        bases = ' '.join(ast.unparse(b) for b in cnode.bases)
        decos = ' '.join(ast.unparse(d) for d in cnode.decorator_list)
        if flds and ('NamedTuple' in bases or 'dataclass' in decos):
            records[cname] = (flds, dflt)
    method_count: Dict[str, int] = {}
    for c_ in tree.body:
        if isinstance(c_, ast.ClassDef):
            for m_ in c_.body:
                if isinstance(m_, ast.FunctionDef):
                    method_count[m_.name] = method_count.get(m_.name, 0) + 1
    record: Dict[str, List[str]] = {}
    from .unroll import unroll_in_place
    inl = Inliner(helpers)
    inl.unique_methods = {k for k, v in method_count.items() if v == 1}
    _BetaArgs.records = records
    # module-level names bound once to a record of a new record class: NAME.field is the constructor argument
    mod_records: Dict[str, Dict[str, ast.AST]] = {}
    top_counts: Dict[str, int] = {}
    for st in tree.body:
        for t in (st.targets if isinstance(st, ast.Assign) else [st.target] if isinstance(st, ast.AnnAssign) else []):
            if isinstance(t, ast.Name):
                top_counts[t.id] = top_counts.get(t.id, 0) + 1
    for st in tree.body:
        tgt = st.targets[0] if isinstance(st, ast.Assign) and len(st.targets) == 1 else \
            st.target if isinstance(st, ast.AnnAssign) else None
        v = getattr(st, 'value', None)
        if isinstance(tgt, ast.Name) and top_counts.get(tgt.id) == 1 and isinstance(v, ast.Call) and \
                isinstance(v.func, ast.Name) and v.func.id in records and \
                not any(isinstance(x, ast.Starred) for x in v.args) and all(k.arg for k in v.keywords):
            flds, dflt = records[v.func.id]
            vals = dict(zip(flds, v.args))
            vals.update({k.arg: k.value for k in v.keywords})
            for f_ in flds:
                if f_ not in vals and f_ in dflt:
                    vals[f_] = dflt[f_]
            if all(f_ in vals for f_ in flds):
                mod_records[tgt.id] = vals
    # literal tables bound once at module level (a dispatch table moved out of the function)
    mod_tables: Dict[str, ast.AST] = {}
    counts: Dict[str, int] = {}
    for st in tree.body:
        for t in (st.targets if isinstance(st, ast.Assign) else [st.target] if isinstance(st, ast.AnnAssign) else []):
            if isinstance(t, ast.Name):
                counts[t.id] = counts.get(t.id, 0) + 1
                if getattr(st, 'value', None) is not None and isinstance(st.value, (ast.Tuple, ast.List)):
                    mod_tables[t.id] = st.value
    known_tops = set((inv.get('__toplevel__') or '').split())
    mod_tables = {k: v for k, v in mod_tables.items() if counts.get(k) == 1}
    # literal tables (dict / tuple / list / set displays) bound once at module level that the reference tree does not
    # have: a constant moved out of a function; read where it is used
    new_consts: Dict[str, ast.AST] = {}
    mutated_tops = set()
    for x in ast.walk(tree):
        if isinstance(x, ast.Subscript) and isinstance(x.ctx, (ast.Store, ast.Del)) and isinstance(x.value, ast.Name):
            mutated_tops.add(x.value.id)
        if isinstance(x, ast.Call) and isinstance(x.func, ast.Attribute) and isinstance(x.func.value, ast.Name) and \
                x.func.attr in ('append', 'extend', 'add', 'update', 'setdefault', 'pop', 'clear', 'insert', 'remove',
                                'popitem', 'discard', 'sort'):
            mutated_tops.add(x.func.value.id)
        if isinstance(x, (ast.Global,)):
            mutated_tops |= set(x.names)
    for st in tree.body:
        tgt = st.targets[0] if isinstance(st, ast.Assign) and len(st.targets) == 1 else \
            st.target if isinstance(st, ast.AnnAssign) else None
        if isinstance(tgt, ast.Name) and isinstance(getattr(st, 'value', None), (ast.Dict, ast.Tuple, ast.List, ast.Set)) \
                and counts.get(tgt.id) == 1 and tgt.id not in known_tops and tgt.id not in mutated_tops and \
                (isinstance(st.value, ast.Tuple) or (st.value.keys if isinstance(st.value, ast.Dict) else st.value.elts)):
            new_consts[tgt.id] = st.value      # a table: never written to, not empty (an empty dict / list is a store)
    # literal tables bound once in a class body that the reference tree does not have
    class_consts: Dict[str, Dict[str, ast.AST]] = {}
    known_cc = set((inv.get('__classconsts__') or '').split())
    for c_ in tree.body:
        if isinstance(c_, ast.ClassDef):
            for b_ in c_.body:
                tgt = b_.targets[0] if isinstance(b_, ast.Assign) and len(b_.targets) == 1 else \
                    b_.target if isinstance(b_, ast.AnnAssign) else None
                if isinstance(tgt, ast.Name) and isinstance(getattr(b_, 'value', None), (ast.Tuple, ast.List, ast.Dict, ast.Set)) \
                        and f'{c_.name}.{tgt.id}' not in known_cc:
                    class_consts.setdefault(c_.name, {})[tgt.id] = b_.value
    for q in sorted(changed):
        fn_, _cls = funcs[q]
        if any(isinstance(x, ast.Match) for x in ast.walk(fn_)):
            try:
                m2i = _MatchToIf()
                m2i.visit(fn_)
                if m2i.did:
                    ast.fix_missing_locations(fn_)
                    record.setdefault(q, []).append('match statement read as an if-chain')
            except Exception as e:  # noqa
                record.setdefault(q, []).append(f'match not read: {type(e).__name__}: {e}')
    for _pass in range(6):
        any_change = False
        for q in sorted(changed):
            fn, cls = funcs[q]
            try:
                before = len(inl.inlined)
                if propagate_callable_locals(fn, {h_.name for h_ in helpers.values()} | {h_.name for h_ in inl.helpers.values()}):
                    any_change = True
                if propagate_generator_locals(fn, {h_.name for h_ in helpers.values() if h_.is_gen and h_.cls is None}):
                    any_change = True
                if functional_to_loops(fn, {h_.name for h_ in helpers.values()}):
                    record.setdefault(q, []).append('reduce / chain written as loops')
                    any_change = True
                if unroll_in_place(fn, extra_tables=mod_tables):
                    record.setdefault(q, []).append('table loop written out')
                    any_change = True
                # functions defined inside this function are helpers of this function
                local = {}
                for st in ast.walk(fn):
                    if isinstance(st, ast.FunctionDef) and st is not fn and not st.decorator_list and st.name not in local:
                        local[st.name] = _Helper(st.name, st, None)
                inl.helpers = dict(helpers, **local)
                if inl.helpers and inline_function(fn, cls, inl):
                    any_change = True
                    record.setdefault(q, []).extend(sorted(set(inl.inlined[before:])))
                if cls is not None and class_consts.get(cls.name):
                    cc = class_consts[cls.name]

                    class _CC(ast.NodeTransformer):
                        hit = False

                        def visit_Attribute(self, n):
                            n = self.generic_visit(n)
                            if isinstance(n.ctx, ast.Load) and isinstance(n.value, ast.Name) and \
                                    n.value.id in ('self', 'cls', cls.name) and n.attr in cc:
                                _CC.hit = True
                                return ast.copy_location(copy.deepcopy(cc[n.attr]), n)
                            return n
                    _CC.hit = False
                    _CC().visit(fn)
                    if _CC.hit:
                        any_change = True
                        record.setdefault(q, []).append('class-level literal read in place')
                if mod_records:
                    shadow_r = _stored_names(fn) | {a.arg for a in ast.walk(fn) if isinstance(a, ast.arg)}

                    class _MR(ast.NodeTransformer):
                        hit = False

                        def visit_Attribute(self, n):
                            n = self.generic_visit(n)
                            if isinstance(n.ctx, ast.Load) and isinstance(n.value, ast.Name) and \
                                    n.value.id in mod_records and n.value.id not in shadow_r and \
                                    n.attr in mod_records[n.value.id]:
                                _MR.hit = True
                                return ast.copy_location(copy.deepcopy(mod_records[n.value.id][n.attr]), n)
                            return n
                    _MR.hit = False
                    _MR().visit(fn)
                    if _MR.hit:
                        any_change = True
                        record.setdefault(q, []).append('module-level record read field by field')
                if new_consts:
                    shadow = _stored_names(fn) | {a.arg for a in ast.walk(fn) if isinstance(a, ast.arg)}
                    env_c = {k: v for k, v in new_consts.items() if k not in shadow}
                    used = {x.id for x in ast.walk(fn) if isinstance(x, ast.Name) and isinstance(x.ctx, ast.Load)}
                    if env_c and used & set(env_c):
                        _Rename({}, env_c).visit(fn)
                        record.setdefault(q, []).append('module-level literal read in place')
                if scalarise_records(fn, records):
                    any_change = True
                    record.setdefault(q, []).append('record read field by field')
                if fuse_staging_lists(fn):
                    any_change = True
                    record.setdefault(q, []).append('staging list fused')
                if tidy_blocks(fn):
                    any_change = True
                    record.setdefault(q, []).append('branch initialisation / try temporary fused')
                before_ = ast.dump(fn)
                fn2 = _BetaArgs().visit(fn)
                ast.fix_missing_locations(fn2)
                if ast.dump(fn) != before_:
                    any_change = True
            except Exception as e:  # a normalisation that fails leaves the function as it is
                record.setdefault(q, []).append(f'normalisation skipped: {type(e).__name__}: {e}')
        if not any_change:
            break
    # helpers that were read through at every place they are used: private, new, and no reference to their name is left
    # anywhere in the module outside helpers of the same kind.  Their code is analysed where it runs (in the callers);
    # scanning the helper by itself again would judge a fragment without its context.
    cand = {q: h for q, h in helpers.items() if h.name.startswith('_')}
    absorbed = set(cand)
    while True:
        refs: Dict[str, int] = {}
        skip = {id(cand[q].node) for q in absorbed}

        def count(node):
            if id(node) in skip:
                return
            if isinstance(node, ast.Name) and isinstance(node.ctx, ast.Load):
                refs[node.id] = refs.get(node.id, 0) + 1
            elif isinstance(node, ast.Attribute):
                refs[node.attr] = refs.get(node.attr, 0) + 1
            elif isinstance(node, ast.Constant) and isinstance(node.value, str) and node.value.isidentifier():
                refs[node.value] = refs.get(node.value, 0) + 1      # getattr(x, 'name') and the like
            for ch in ast.iter_child_nodes(node):
                count(ch)
        count(tree)
        drop = {q for q in absorbed if refs.get(cand[q].name)}
        if not drop:
            break
        absorbed -= drop
    if absorbed:
        record['__absorbed__'] = sorted(absorbed)
    return record


def write_inventory(root: str, path: str = _INV_PATH) -> int:
    pkg = os.path.join(root, 'src', 'peptacular')
    inv: Dict[str, Dict[str, str]] = {}
    n = 0
    for dirpath, dirnames, filenames in sorted(os.walk(pkg)):
        dirnames[:] = sorted(d for d in dirnames if d != '__pycache__')
        for fnm in sorted(filenames):
            if not fnm.endswith('.py'):
                continue
            p = os.path.join(dirpath, fnm)
            modrel = os.path.relpath(p, os.path.join(root, 'src'))[:-3]
            parts = modrel.split(os.sep)
            if parts[-1] == '__init__':
                parts = parts[:-1]
            import warnings
            with warnings.catch_warnings():
                warnings.simplefilter('ignore')
                tree = ast.parse(open(p, encoding='utf-8').read())
            inv['.'.join(parts)] = {q: body_digest(nd) for q, (nd, c) in module_functions(tree).items()}
            n += len(inv['.'.join(parts)])
            tops = []
            for st in tree.body:
                for t in (st.targets if isinstance(st, ast.Assign) else [st.target] if isinstance(st, ast.AnnAssign) else []):
                    if isinstance(t, ast.Name):
                        tops.append(t.id)
            inv['.'.join(parts)]['__toplevel__'] = ' '.join(sorted(set(tops)))
            inv['.'.join(parts)]['__classes__'] = ' '.join(sorted(c_.name for c_ in tree.body if isinstance(c_, ast.ClassDef)))
            ccs = []
            for c_ in tree.body:
                if isinstance(c_, ast.ClassDef):
                    for b_ in c_.body:
                        tgt = b_.targets[0] if isinstance(b_, ast.Assign) and len(b_.targets) == 1 else \
                            b_.target if isinstance(b_, ast.AnnAssign) else None
                        if isinstance(tgt, ast.Name):
                            ccs.append(f'{c_.name}.{tgt.id}')
            inv['.'.join(parts)]['__classconsts__'] = ' '.join(sorted(ccs))
    json.dump(inv, open(path, 'w'), indent=0, sort_keys=True)
    return n
