"""
types: a small type language for repository classes and builtin containers, parsed from annotations.

A type is a frozenset of *terms* (a union); the empty set means "unknown".
Terms: ('str',) ('int',) ('float',) ('bool',) ('none',) ('bytes',)
       ('cls', 'pkg.mod:Name')          repository class instance
       ('list', elemtypes) ('set', elemtypes) ('tuple', elemtypes) ('gen', elemtypes)
       ('dict', keytypes, valtypes) ('counter',)
       ('callable',) ('module', dotted) ('ext', name) ('func', fq) ('classobj', fq)
"""
import ast
from typing import FrozenSet, Tuple, Optional

from .loader import Program, Module

Types = FrozenSet[Tuple]

STR = ('str',)
INT = ('int',)
FLOAT = ('float',)
BOOL = ('bool',)
NONE = ('none',)
BYTES = ('bytes',)
CALLABLE = ('callable',)
COUNTER = ('counter',)

EMPTY: Types = frozenset()

IMMUTABLE_HEADS = {'str', 'int', 'float', 'bool', 'none', 'bytes', 'callable', 'module', 'func', 'classobj'}


def T(*terms) -> Types:
    return frozenset(terms)


def is_immutable_term(t) -> bool:
    if t[0] in IMMUTABLE_HEADS:
        return True
    if t[0] == 'tuple':
        return len(t[1]) > 0 and all(is_immutable_term(x) for x in t[1])
    if t[0] == 'ext':
        return t[1] in ('regex.Pattern', 'regex.Match', 're.Pattern', 're.Match')
    return False


def maybe_mutable(types: Types) -> Optional[bool]:
    """True: some term is mutable; False: all terms immutable; None: unknown type."""
    if not types:
        return None
    return not all(is_immutable_term(t) for t in types)


FROZEN_CLASSES = set()  # filled by the analyzer from the program (fq names of frozen dataclasses)


def shallow_immutable(types: Types) -> bool:
    """every term is immutable or an instance of a frozen dataclass (its fields cannot be rebound)"""
    if not types:
        return False
    for t in types:
        if is_immutable_term(t):
            continue
        if t[0] == 'cls' and t[1] in FROZEN_CLASSES:
            continue
        return False
    return True


def head_of(t) -> Tuple:
    return (t[0], t[1]) if t[0] == 'cls' else (t[0],)


def heads(types: Types):
    return frozenset(head_of(t) for t in types) if types else None


def has_interior(types: Types) -> Optional[bool]:
    """False when every term is a container/str whose elements are known immutable (nothing inside to share)"""
    if not types:
        return None
    for t in types:
        if is_immutable_term(t):
            continue
        if t[0] in ('list', 'set', 'gen', 'tuple'):
            if t[1] and all(is_immutable_term(x) for x in t[1]):
                continue
            return True
        if t[0] == 'dict':
            if t[2] and all(is_immutable_term(x) for x in t[2]) and (not t[1] or all(is_immutable_term(x) for x in t[1])):
                continue
            return True
        if t[0] == 'counter':
            continue
        return True
    return False


def elem_types(types: Types) -> Types:
    out = set()
    for t in types:
        if t[0] in ('list', 'set', 'tuple', 'gen'):
            out |= set(t[1])
        elif t[0] == 'dict':
            out |= set(t[1])  # iterating a dict yields keys
        elif t[0] == 'str':
            out.add(STR)
        elif t[0] == 'counter':
            pass
    return frozenset(out)


def value_types(types: Types) -> Types:
    """Types of x[k]."""
    out = set()
    for t in types:
        if t[0] in ('list', 'tuple'):
            out |= set(t[1])
        elif t[0] == 'dict':
            out |= set(t[2])
        elif t[0] == 'str':
            out.add(STR)
        elif t[0] == 'counter':
            out.add(INT)
    return frozenset(out)


_SIMPLE = {
    'str': STR, 'int': INT, 'float': FLOAT, 'bool': BOOL, 'None': NONE, 'bytes': BYTES,
    'complex': FLOAT,
}

_LISTLIKE = {'List', 'list', 'Sequence', 'Iterable', 'Collection', 'MutableSequence'}
_GENLIKE = {'Generator', 'Iterator'}
_SETLIKE = {'Set', 'set', 'FrozenSet', 'frozenset'}
_DICTLIKE = {'Dict', 'dict', 'Mapping', 'MutableMapping', 'DefaultDict', 'OrderedDict'}


class TypeParser:
    def __init__(self, program: Program):
        self.program = program
        self._alias_cache = {}

    def parse(self, expr: Optional[ast.AST], module: Module, _depth: int = 0) -> Types:
        if expr is None or _depth > 12:
            return EMPTY
        if isinstance(expr, ast.Constant):
            if expr.value is None:
                return T(NONE)
            if isinstance(expr.value, str):
                try:
                    sub = ast.parse(expr.value, mode='eval').body
                except SyntaxError:
                    return EMPTY
                return self.parse(sub, module, _depth + 1)
            return EMPTY
        if isinstance(expr, ast.Name):
            return self._name(expr.id, module, _depth)
        if isinstance(expr, ast.Attribute):
            s = ast.unparse(expr)
            base = s.split('.')[-1]
            if s in ('regex.Pattern', 're.Pattern'):
                return T(('ext', 'regex.Pattern'))
            if base in _SIMPLE or base in _LISTLIKE or base in _DICTLIKE:
                return self._name(base, module, _depth)
            return EMPTY
        if isinstance(expr, ast.BinOp) and isinstance(expr.op, ast.BitOr):
            return self.parse(expr.left, module, _depth + 1) | self.parse(expr.right, module, _depth + 1)
        if isinstance(expr, ast.Subscript):
            head = expr.value
            hname = head.id if isinstance(head, ast.Name) else (head.attr if isinstance(head, ast.Attribute) else None)
            sl = expr.slice
            args = list(sl.elts) if isinstance(sl, ast.Tuple) else [sl]
            if hname == 'Union':
                out = set()
                for a in args:
                    out |= self.parse(a, module, _depth + 1)
                return frozenset(out)
            if hname == 'Optional':
                return self.parse(args[0], module, _depth + 1) | T(NONE)
            if hname in _LISTLIKE:
                return T(('list', self.parse(args[0], module, _depth + 1)))
            if hname in _GENLIKE:
                return T(('gen', self.parse(args[0], module, _depth + 1)))
            if hname in _SETLIKE:
                return T(('set', self.parse(args[0], module, _depth + 1)))
            if hname in _DICTLIKE:
                k = self.parse(args[0], module, _depth + 1)
                v = self.parse(args[1], module, _depth + 1) if len(args) > 1 else EMPTY
                return T(('dict', k, v))
            if hname in ('Tuple', 'tuple'):
                out = set()
                for a in args:
                    if isinstance(a, ast.Constant) and a.value is Ellipsis:
                        continue
                    out |= self.parse(a, module, _depth + 1)
                return T(('tuple', frozenset(out)))
            if hname == 'Literal':
                out = set()
                for a in args:
                    if isinstance(a, ast.Constant):
                        out.add(_SIMPLE.get(type(a.value).__name__, STR) if a.value is not None else NONE)
                return frozenset(out)
            if hname in ('Counter', 'CounterType'):
                return T(COUNTER)
            if hname in ('Callable', 'Type'):
                return T(CALLABLE)
            if hname == 'IO':
                return T(('ext', 'IO'))
            return EMPTY
        if isinstance(expr, ast.Tuple):  # `-> (str, str)` style annotation
            out = set()
            for a in expr.elts:
                out |= self.parse(a, module, _depth + 1)
            return T(('tuple', frozenset(out)))
        return EMPTY

    def _name(self, name: str, module: Module, depth: int) -> Types:
        if name in _SIMPLE:
            return T(_SIMPLE[name])
        if name == 'Any' or name == 'object':
            return EMPTY
        if name in _LISTLIKE:
            return T(('list', EMPTY))
        if name in _GENLIKE:
            return T(('gen', EMPTY))
        if name in _SETLIKE:
            return T(('set', EMPTY))
        if name in _DICTLIKE:
            return T(('dict', EMPTY, EMPTY))
        if name in ('Tuple', 'tuple'):
            return T(('tuple', EMPTY))
        if name in ('Counter', 'CounterType'):
            return T(COUNTER)
        if name == 'Callable':
            return T(CALLABLE)
        r = self.program.resolve_name(module.name, name)
        if r is None:
            return EMPTY
        if r[0] == 'class':
            return T(('cls', r[1].fq))
        if r[0] == 'global':
            key = (r[1], r[2])
            if key in self._alias_cache:
                return self._alias_cache[key]
            self._alias_cache[key] = EMPTY
            res = self.parse(r[3], self.program.modules[r[1]], depth + 1)
            self._alias_cache[key] = res
            return res
        if r[0] == 'external':
            if r[2] in ('Counter',):
                return T(COUNTER)
            if r[1] in ('regex', 're') and r[2] == 'Pattern':
                return T(('ext', 'regex.Pattern'))
        return EMPTY


def fmt_types(types: Types) -> str:
    def one(t):
        if t[0] == 'cls':
            return t[1].split(':')[1]
        if t[0] in ('list', 'set', 'tuple', 'gen'):
            return f'{t[0]}[{fmt_types(t[1])}]'
        if t[0] == 'dict':
            return f'dict[{fmt_types(t[1])},{fmt_types(t[2])}]'
        if len(t) > 1:
            return f'{t[0]}:{t[1]}'
        return t[0]
    if not types:
        return '?'
    return '|'.join(sorted(one(t) for t in types))
